"""C07 — pruning coarsens the tree to a fixpoint and keeps it consistent."""
import copy
import numpy as np
from .. import common, impl, gen, tie, oracles
from . import compute_common as cc
from . import dendro_common as dc
from .c01 import ASSUMPTIONS, TRUSTED

RULE = ('histories compute; prune(p1); ... prune(pk) (k <= 4) on structured random cases incl. larger arrays with deep '
        'trees, parameters at comparison boundaries, decreasing parameters, zero (inherit), built-in user criteria; '
        'after every prune: the statement of C07 evaluated on the implementation (before/after), and the Coq prune model '
        'run on the observed forest before the call must give the observed parameters, label map and structures after; '
        'non-trivial = a prune call that removed at least one structure')
EXPLANATION = ('Theorems in props/C07.v on the prune model + prune tie step by step + before/after oracle on the '
               'implementation (incl. idempotence and no-op checks by calling prune again)')
HEADER = tie.HEADER


def snapshot(d, shape):
    regions, parents, own = {}, {}, {}
    for s in d._structures_dict.values():
        regions[s.idx] = sorted(oracles.flat_indices(shape, s.indices(subtree=True)))
        own[s.idx] = sorted(oracles.flat_indices(shape, s.indices(subtree=False)))
        parents[s.idx] = s.parent.idx if s.parent is not None else None
    return {'regions': regions, 'parents': parents, 'own': own,
            'labels': [int(x) for x in d.index_map.ravel().tolist()],
            'params': dict(d.params), 'trunk': [s.idx for s in d.trunk],
            'children': {s.idx: [c.idx for c in s.children] for s in d._structures_dict.values()},
            'iteration': [s.idx for s in d], 'newick': d.to_newick()}


def leaf_ok(case, step_eff, d, s):
    """The requested criteria on leaf s of d (post hoc if it has a parent, final otherwise)."""
    vals = case['vals']
    shape = tuple(case['shape'])
    own = oracles.flat_indices(shape, s.indices(subtree=True))
    vs = [vals[p] for p in own]
    delta, (num, den) = step_eff['delta'], step_eff['npix']
    if s.parent is not None:
        ph = min(min(vals[p] for p in oracles.flat_indices(shape, c.indices(subtree=False))) for c in s.parent.children)
        ok = (max(vs) - ph) >= delta
    else:
        ok = (max(vs) - min(vs)) >= delta
    ok = ok and len(own) * den >= num
    for c in step_eff.get('crit', []):
        if c[0] == 'peak':
            ok = ok and max(vs) >= c[1]
        elif c[0] == 'sum':
            ok = ok and sum(vs) >= c[1]
        elif c[0] == 'seeds':
            ok = ok and bool(set(own) & set(c[1]))
    return ok


def effective(step, before_params, case):
    """Criteria actually applied by this call: 0 means inherit the recorded value."""
    den = case.get('den') or 2 ** case.get('scale', 0)
    from fractions import Fraction
    d = step.get('delta', 0)
    if d == 0:
        d = int(Fraction(float(before_params['min_delta'])) * den)
    n = list(step.get('npix', [0, 1]))
    if n[0] == 0:
        f = Fraction(float(before_params['min_npix'])).limit_denominator(1000)
        n = [f.numerator, f.denominator]
    return {'delta': d, 'npix': n, 'crit': step.get('crit', [])}


def oracle_step(case, before, d, step):
    """C07 on one prune call: before = snapshot before, d = dendrogram after."""
    fails = []
    shape = tuple(case['shape'])
    after = snapshot(d, shape)
    fails += oracles.oracle_c02(d, computed=False)
    try:
        fails += oracles.oracle_c06(case, d)
    except Exception as e:
        fails.append('accessor raised %r' % (e,))
    # survivors keep id and region
    for i, reg in after['regions'].items():
        if i not in before['regions']:
            fails.append('structure %d appears after prune' % i)
        elif before['regions'][i] != reg:
            fails.append('region of surviving structure %d changed: %s -> %s' % (i, before['regions'][i], reg))
    surv = set(after['regions'])

    def nearest(i):
        p = before['parents'][i]
        while p is not None and p not in surv:
            p = before['parents'][p]
        return p
    for i in surv:
        if i in before['parents'] and after['parents'][i] != nearest(i):
            fails.append('parent of %d is %s, nearest surviving former ancestor is %s' % (i, after['parents'][i], nearest(i)))
    # pixels
    for p, (lb, la) in enumerate(zip(before['labels'], after['labels'])):
        if lb < 0:
            if la >= 0:
                fails.append('pixel %d becomes assigned by prune' % p)
            continue
        want = lb if lb in surv else nearest(lb)
        if want is None:
            if la != -1:
                fails.append('pixel %d of removed structure %d without surviving ancestor is labelled %d' % (p, lb, la))
        elif la != want:
            fails.append('pixel %d (structure %d before) is labelled %d, expected %s' % (p, lb, la, want))
    # only isolated leaves failing the criteria become unassigned
    eff = effective(step, before['params'], case)
    lost = [p for p, (lb, la) in enumerate(zip(before['labels'], after['labels'])) if lb >= 0 and la < 0]
    if lost:
        # group by former trunk tree
        def root(i):
            while before['parents'][i] is not None:
                i = before['parents'][i]
            return i
        for r in set(root(before['labels'][p]) for p in lost):
            reg = before['regions'][r]
            if any(after['labels'][p] >= 0 for p in reg):
                fails.append('only part of former trunk structure %d became unassigned' % r)
            else:
                vs = [case['vals'][p] for p in reg]
                ok = (max(vs) - min(vs)) >= eff['delta'] and len(reg) * eff['npix'][1] >= eff['npix'][0]
                for c in eff.get('crit', []):
                    if c[0] == 'peak':
                        ok = ok and max(vs) >= c[1]
                    elif c[0] == 'sum':
                        ok = ok and sum(vs) >= c[1]
                    elif c[0] == 'seeds':
                        ok = ok and bool(set(reg) & set(c[1]))
                if ok:
                    fails.append('isolated region %s became unassigned although it meets the criteria as one leaf' % reg)
    # every leaf satisfies the requested criteria
    for s in d:
        if not s.children and not leaf_ok(case, eff, d, s):
            fails.append('leaf %d violates the requested criteria after prune' % s.idx)
    # parameters never decrease
    for k in ('min_delta', 'min_npix'):
        if d.params[k] < before['params'][k]:
            fails.append('recorded %s decreased from %r to %r' % (k, before['params'][k], d.params[k]))
    if d.params['min_value'] != before['params']['min_value']:
        fails.append('min_value changed')
    return fails, after


def same_state(a, b, trunk_order=False):
    keys = ['regions', 'parents', 'own', 'labels', 'params', 'children']
    if trunk_order:
        keys += ['trunk', 'iteration', 'newick']
    return [k for k in keys if a[k] != b[k]]


def level_criterion_stream(ctx):
    """A user criterion that depends on the tree itself (here: on structure.level).  While prune() merges leaves the
    cached levels it reads are those from before earlier merges (known finding K8), so afterwards a leaf may fail the
    criterion on the returned tree and a second identical prune changes it again.  Oracle only."""
    from astrodendro import Dendrogram
    rng = ctx.rng('c07-level')
    for it in range(60 if ctx.quick else 600):
        n = rng.randint(5, 12)
        vals = list(range(1, n + 1))
        rng.shuffle(vals)
        k = rng.randint(3, n)

        def crit(structure, index=None, value=None, k=k):
            return structure.vmax >= k - structure.level
        try:
            d = Dendrogram.compute(np.array(vals, dtype=float), min_value=0)
            for s in d:
                s.level
            d.prune(is_independent=crit)
            bad = [int(s.idx) for s in d.leaves if not crit(s)]
            first = impl.impl_hierarchy(d, (n,))
            d.prune(is_independent=crit)
            second = impl.impl_hierarchy(d, (n,))
        except Exception as e:
            ctx.oracle_failure({'stream': 'level-criterion', 'vals': vals, 'k': k}, ['prune raised %r' % (e,)], {})
            continue
        ctx.count('level_criterion_cases')
        ctx.case_done(None, ('level-crit', tuple(vals), k))
        fails = []
        if bad:
            fails.append('after prune(is_independent: vmax >= %d - level) the leaves %s fail that criterion on the returned tree' % (k, bad))
        if first != second:
            fails.append('pruning again with the same criterion changes the tree: %s -> %s' % (first, second))
        if fails:
            ctx.oracle_failure({'stream': 'level-criterion', 'vals': vals, 'k': k}, fails, {'tag': 'K8'})


def junction_stream(ctx):
    """Small 2-D images with few distinct values: branches with three and more children (a saddle pixel touching several
    structures).  After prune(min_delta) every leaf with a parent must stand at least min_delta above its parent's
    height, and pruning again must change nothing.  Oracle only."""
    from astrodendro import Dendrogram
    rng = ctx.rng('c07-junction')
    for it in range(500 if ctx.quick else 5000):
        shape = rng.choice([(3, 3), (3, 4), (4, 4), (3, 5), (2, 5)])
        top = rng.choice([5, 7, 9, 12])
        vals = [rng.randint(1, top) for _ in range(shape[0] * shape[1])]
        delta = rng.randint(1, 3)
        arr = np.array(vals, dtype=float).reshape(shape)
        info = {'stream': 'junctions', 'shape': list(shape), 'vals': vals, 'min_delta': delta}
        try:
            d = Dendrogram.compute(arr, min_value=0)
            wide = max([len(s.children) for s in d] or [0])
            d.prune(min_delta=delta)
            bad = [int(s.idx) for s in d.leaves if s.parent is not None and not (s.height - s.parent.height >= delta)]
            first = impl.impl_hierarchy(d, shape)
            d.prune(min_delta=delta)
            second = impl.impl_hierarchy(d, shape)
        except Exception as e:
            ctx.oracle_failure(info, ['raised %r' % (e,)], {})
            continue
        ctx.count('junction_cases')
        ctx.case_done(None, ('junction', shape, tuple(vals), delta) if wide >= 3 else None)
        fails = []
        if bad:
            fails.append('after prune(min_delta=%d) the leaves %s stand less than that above their parent' % (delta, bad))
        if first != second:
            fails.append('pruning again with the same min_delta changes the tree: %s -> %s' % (first, second))
        if fails:
            ctx.oracle_failure(info, fails, {})


def decimal_delta_stream(ctx):
    """Heights, merger levels and min_delta written with one or two decimals (what a user types): the differences land
    on rounding boundaries.  The criterion is the leaf's height above its parent's height, one double subtraction:
    after prune(min_delta=d) every leaf with a parent meets it, and when every leaf already met it nothing changes."""
    from astrodendro import Dendrogram
    rng = ctx.rng('c07-decimal')
    for it in range(400 if ctx.quick else 4000):
        q = rng.choice([10, 100])
        n = rng.randint(4, 9)
        # peaks separated by saddles; every saddle value is repeated so that the parent's height is the joining value
        vals = []
        for k in range(n):
            vals += [rng.randint(q, 9 * q) / q]
            if k < n - 1:
                sv = rng.randint(1, q) / q
                vals += [sv, sv]
        delta = rng.randint(1, 4 * q) / q
        arr = np.array(vals, dtype=float)
        info = {'stream': 'decimal min_delta', 'data': vals, 'min_delta': delta}
        try:
            d = Dendrogram.compute(arr.copy(), min_value=0)
            shape = (len(vals),)
            met = all(float(s.height) - float(s.parent.height) >= delta for s in d.leaves if s.parent is not None)
            before = impl.impl_hierarchy(d, shape)
            d.prune(min_delta=delta)
            after = impl.impl_hierarchy(d, shape)
            bad = [(int(s.idx), float(s.height), float(s.parent.height)) for s in d.leaves
                   if s.parent is not None and not (float(s.height) - float(s.parent.height) >= delta)]
        except Exception as e:
            ctx.oracle_failure(info, ['raised %r' % (e,)], {})
            continue
        ctx.count('decimal_delta_cases')
        ctx.count('decimal_delta_all_met=%s' % met)
        ctx.case_done(None, ('decimal', tuple(vals), delta))
        fails = []
        if bad:
            fails.append('after prune(min_delta=%r) leaves (id, height, parent height) %s stand less than that above their parent' % (delta, bad[:3]))
        if met and before != after:
            fails.append('every leaf already stood min_delta=%r above its parent, yet prune changed the tree: %s -> %s' % (delta, before, after))
        if fails:
            ctx.oracle_failure(info, fails, {})


def narrow_argument_stream(ctx):
    """prune() called with numpy scalars narrower than a double (3 * image.std() of a float32 image is one): the recorded
    parameters, read as doubles, never decrease, and a value that is not recorded (less strict) is announced."""
    import warnings
    from astrodendro import Dendrogram
    rng = ctx.rng('c07-narrow-args')
    for it in range(120 if ctx.quick else 1200):
        vals = [rng.randint(1, 60) / 10.0 for _ in range(rng.randint(5, 12))]
        arr = np.array(vals)
        d0 = rng.choice([0.7, 0.1, 1.3, 0.3, 2.1])
        n0 = rng.choice([0, 2, 2.1, 1.3])
        info = {'stream': 'narrow prune arguments', 'data': vals, 'compute': {'min_delta': d0, 'min_npix': n0}, 'calls': []}
        fails = []
        try:
            d = Dendrogram.compute(arr, min_value=0, min_delta=d0, min_npix=n0)
            for k in range(rng.randint(1, 3)):
                ft = rng.choice([np.float32, np.float16, np.float64])
                kw = {}
                if rng.random() < 0.7:
                    kw['min_delta'] = ft(rng.choice([d0, d0, 0.7, 1.3, 2.1, 0.1]))
                    if ft is np.float64 and rng.random() < 0.5:
                        # a threshold recomputed by the caller: the recorded one but for round-off
                        cur = float(d.params['min_delta'])
                        kw['min_delta'] = rng.choice([cur * (1 - 1e-9), float(np.nextafter(cur, 0)), cur * (1 - 3e-6), cur - 1e-10])
                if rng.random() < 0.5:
                    kw['min_npix'] = ft(rng.choice([n0 or 2.1, 2.1, 1.3, 3]))
                before = {k_: float(d.params[k_]) for k_ in ('min_delta', 'min_npix')}
                info['calls'].append({k_: '%s(%r)' % (type(v_).__name__, float(v_)) for k_, v_ in kw.items()})
                with warnings.catch_warnings(record=True) as w:
                    warnings.simplefilter('always')
                    d.prune(**kw)
                after = {k_: float(d.params[k_]) for k_ in ('min_delta', 'min_npix')}
                for k_ in before:
                    if after[k_] < before[k_]:
                        fails.append('recorded %s went down from %r to %r after prune(%s)' % (k_, before[k_], after[k_], info['calls'][-1]))
                    if k_ in kw and float(kw[k_]) != 0 and float(kw[k_]) < before[k_] and not any(k_ in str(x.message) for x in w):
                        fails.append('prune(%s) with a less strict %s than the recorded %r gave no warning' % (info['calls'][-1], k_, before[k_]))
                if fails:
                    break
        except Exception as e:
            fails.append('raised %r' % (e,))
        ctx.count('narrow_argument_cases')
        ctx.case_done(None, ('narrow-args', it))
        if fails:
            ctx.oracle_failure(info, fails, {})


def decimal_sum_stream(ctx):
    """min_sum on values with one decimal: their floating-point sum depends on the order of addition, and a structure
    stores its pixels in another order once it has been merged or indexed.  After prune(min_sum(T)) the criterion itself
    accepts every leaf, and the same prune again changes nothing."""
    from astrodendro import Dendrogram, pruning
    rng = ctx.rng('c07-decimal-sum')
    for it in range(250 if ctx.quick else 2500):
        shape = rng.choice([(rng.randint(3, 10),), (3, 4), (2, 5)])
        n = int(np.prod(shape))
        vals = [rng.randint(1, 9) / 10.0 for _ in range(n)]
        arr = np.array(vals).reshape(shape)
        T = rng.randint(8, 30) / 10.0
        info = {'stream': 'decimal sums', 'shape': list(shape), 'data': vals, 'min_sum': T}
        fails = []
        try:
            d = Dendrogram.compute(arr, min_value=0.0)
            if len(d) and rng.random() < 0.7:
                # the decimal a user would read off for one of the structures
                pick = rng.choice(list(d))
                T = round(float(np.sum(pick.values(subtree=rng.random() < 0.5))), 1)
                info['min_sum'] = T
            crit = pruning.min_sum(T)
            d.prune(is_independent=crit)
            first = impl.impl_hierarchy(d, shape)
            bad = [int(s.idx) for s in d.leaves if not crit(s)]
            if bad:
                fails.append('after prune(is_independent=min_sum(%r)) the criterion rejects the leaves %s of the returned dendrogram' % (T, bad))
            d.prune(is_independent=pruning.min_sum(T))
            second = impl.impl_hierarchy(d, shape)
            if first != second:
                fails.append('pruning again with min_sum(%r) changes the tree: %s -> %s' % (T, first, second))
        except Exception as e:
            fails.append('raised %r' % (e,))
        ctx.count('decimal_sum_cases')
        ctx.case_done(None, ('decimal-sum', tuple(vals), shape, T))
        if fails:
            ctx.oracle_failure(info, fails, {})


def infinity_prune_stream(ctx):
    """Saturated (+inf) pixels: a leaf that peaks at +inf above a finite level rises by more than any min_delta, an
    infinite plateau measured against its own level does not rise at all.  When every leaf already meets min_delta
    prune changes nothing; afterwards every leaf with a parent meets it; the same prune again changes nothing."""
    from astrodendro import Dendrogram
    rng = ctx.rng('c07-inf')

    def rise(s):
        d_ = float(s.height) - float(s.parent.height)
        return 0.0 if d_ != d_ else d_
    for it in range(150 if ctx.quick else 1500):
        shape = rng.choice([(rng.randint(4, 10),), (3, 4), (2, 6)])
        n = int(np.prod(shape))
        vals = [rng.choice([1.0, 2.0, 3.0, 4.0, 6.0, np.inf, np.inf]) for _ in range(n)]
        if not any(np.isfinite(v) for v in vals):
            vals[0] = 1.0
        arr = np.array(vals).reshape(shape)
        delta = rng.choice([1, 2, 3, 1000])
        info = {'stream': 'infinite pixels', 'shape': list(shape), 'data': repr(vals), 'min_delta': delta}
        fails = []
        try:
            d = Dendrogram.compute(arr.copy(), min_value=0)
            def span(s):
                d_ = float(s.vmax) - float(s.vmin)
                return 0.0 if d_ != d_ else d_
            # (a leaf without a parent is measured from its own faintest pixel)
            met = all((rise(s) if s.parent is not None else span(s)) >= delta for s in d.leaves)
            before = impl.impl_hierarchy(d, shape)
            d.prune(min_delta=delta)
            after = impl.impl_hierarchy(d, shape)
            bad = [int(s.idx) for s in d.leaves if s.parent is not None and not rise(s) >= delta]
            if met and before != after:
                fails.append('every leaf already rose by min_delta=%r above its parent, yet prune changed the tree: %s -> %s' % (delta, before, after))
            if bad:
                fails.append('after prune(min_delta=%r) the leaves %s rise less than that above their parent' % (delta, bad))
            d.prune(min_delta=delta)
            if impl.impl_hierarchy(d, shape) != after:
                fails.append('pruning again with min_delta=%r changes the tree' % delta)
        except Exception as e:
            fails.append('raised %r' % (e,))
        ctx.count('infinite_pixel_prunes')
        ctx.case_done(None, ('c07-inf', repr(vals), shape, delta))
        if fails:
            ctx.oracle_failure(info, fails[:3], {})


def float32_sum_stream(ctx):
    """min_sum on single-precision data: one pixel of 2**24 and a few small ones, the threshold next to their exact sum.
    After prune(is_independent=min_sum(T)) every leaf must really sum to at least T, and the result must be what
    compute(is_independent=min_sum(T)) gives.  Oracle only."""
    from astrodendro import Dendrogram, pruning
    rng = ctx.rng('c07-f32sum')
    for it in range(80 if ctx.quick else 800):
        k = rng.randint(2, 5)
        left = [rng.choice([1, 2, 3, 0.5, 0.25]) for _ in range(k)]
        right = [rng.choice([1, 2, 3, 0.5]) for _ in range(rng.randint(1, 3))]
        vals = left[:1] + [2.0 ** 24] + left[1:] + [0.125] + [3e7] + right
        arr = np.array(vals, dtype=np.float32)
        exact = sum(left) + 2.0 ** 24
        T = exact + rng.choice([0, 0.5, 1, 1.5, 2, -0.5])
        info = {'stream': 'float32 sums', 'data': vals, 'min_sum': T}
        try:
            d = Dendrogram.compute(arr.copy(), min_value=0)
            if rng.random() < 0.5:
                d = dc.save_load(d, 'fits')              # FITS data come back big-endian ('>f4')
                info['loaded_from'] = 'fits'
            form = rng.choice(['function', 'list', 'generator', 'map'])
            crit = pruning.min_sum(T)
            try:
                d.prune(is_independent={'function': crit, 'list': [crit], 'generator': (c_ for c_ in [crit]), 'map': map(lambda c_: c_, [crit])}[form])
            except TypeError:
                d.prune(is_independent=crit)             # refusing a one-shot iterable is no violation
            info['criterion_given_as'] = form
            ref = Dendrogram.compute(arr.copy(), min_value=0, is_independent=pruning.min_sum(T))
        except Exception as e:
            ctx.oracle_failure(info, ['raised %r' % (e,)], {})
            continue
        ctx.count('float32_sum_cases')
        ctx.case_done(None, ('f32sum', tuple(vals), T))
        fails = []
        for s_ in d.leaves:
            tot = sum(float(x) for x in s_.values(subtree=False))          # exact: small integers and halves
            if tot < T:
                fails.append('after prune(min_sum(%r)) leaf %d sums to %r' % (T, s_.idx, tot))
        h1, h2 = impl.impl_hierarchy(d, (len(vals),)), impl.impl_hierarchy(ref, (len(vals),))
        if h1 != h2:
            fails.append('compute().prune(min_sum) %s differs from compute(min_sum) %s' % (h1, h2))
        if fails:
            ctx.oracle_failure(info, fails[:3], {})


def trunk_order_stream(ctx):
    """Several separate trees: prune() with nothing to do leaves the order of the trunk, the iteration order
    and the Newick text alone, straight after compute as well as after an earlier prune."""
    rng = ctx.rng('c07-trunk-order')
    for it in range(150 if ctx.quick else 1500):
        shape = rng.choice([[rng.randint(6, 30)], [rng.randint(2, 5), rng.randint(3, 7)], [2, 2, rng.randint(2, 5)]])
        n = gen.nprod(shape)
        vals = [rng.randint(0, 9) for _ in range(n)]
        c = {'shape': shape, 'vals': vals, 'dtype': 'float64', 'scale': 0, 'minv': rng.randint(2, 6),
             'delta': 0, 'npix': [rng.choice([0, 0, 2]), 1], 'adj': ['grid', [False] * len(shape)]}
        try:
            d = impl.run_compute(c)
            fresh = snapshot(d, tuple(shape))
            d.prune()
            diff = same_state(fresh, snapshot(d, tuple(shape)), trunk_order=True)
        except Exception as e:
            diff = ['(raised %r)' % (e,)]
        ctx.count('trunk_order_cases')
        ctx.count('trunk_size=%s' % min(len(fresh['trunk']), 4))
        ctx.case_done(c, (tuple(vals), tuple(shape), c['minv']) if len(fresh['trunk']) > 1 else None)
        if diff:
            ctx.oracle_failure({'case': c, 'history': ['compute', 'prune()']},
                               ['prune() straight after compute (criteria every leaf already meets) changed %s' % diff])


def explore(ctx):
    trunk_order_stream(ctx)
    infinity_prune_stream(ctx)
    decimal_sum_stream(ctx)
    narrow_argument_stream(ctx)
    decimal_delta_stream(ctx)
    float32_sum_stream(ctx)
    junction_stream(ctx)
    level_criterion_stream(ctx)
    rng = ctx.rng('c07')
    terms, meta = [], []
    n = 900 if ctx.quick else 9000
    for it in range(n):
        c = dc.tree_rich_case(rng)
        try:
            d = impl.run_compute(c)
        except Exception as e:
            ctx.oracle_failure(c, ['compute raised %r' % (e,)])
            continue
        shape = tuple(c['shape'])
        history = ['compute']
        others = []
        if not c.get('delta', 0) and not c.get('crit') and rng.random() < 0.5:
            # straight after compute every leaf meets the recorded criteria (pixel counts only):
            # prune() without arguments changes nothing -- not the order of the trunk, the iteration
            # order or the Newick text either
            try:
                fresh = snapshot(d, shape)
                d.prune()
                diff = same_state(fresh, snapshot(d, shape), trunk_order=True)
            except Exception as e:
                diff = ['(raised %r)' % (e,)]
            ctx.count('noop_prune_after_compute')
            if diff:
                ctx.oracle_failure({'case': c, 'history': ['compute', 'prune()']},
                                   ['prune() straight after compute (criteria every leaf already meets) changed %s' % diff])
                continue
        cur_delta = c.get('delta', 0)
        for k in range(rng.randint(1, 4)):
            step = dc.rand_prune_step(rng, c, cur_delta)
            if rng.random() < 0.4:
                for s in d:
                    s.level, s.descendants, s.get_npix(), s.get_peak()
            before = snapshot(d, shape)
            try:
                forest_before = tie.coq_forest(d, c)
                params_before = tie.params_scaled(d, c)
            except Exception as e:
                ctx.oracle_failure({'case': c, 'history': history}, ['cannot read state: %r' % (e,)])
                break
            nb = len(d)
            peek = rng.random() < 0.25
            try:
                kwp = dc.prune_kwargs(c, step)
                d.prune(**(dc.with_peeking(kwp) if peek else kwp))
                if rng.random() < 0.3:
                    # other dendrograms computed and pruned meanwhile (and still alive) are none of this one's business
                    others.append(dc.other_dendrogram_activity(rng))
            except Exception as e:
                ctx.oracle_failure({'case': c, 'history': history + [step]}, ['prune raised %r' % (e,)])
                break
            history = history + [step] + (['(with a criterion that reads level / descendants)'] if peek else [])
            cur_delta = max(cur_delta, step.get('delta', 0))
            fails, after = oracle_step(c, before, d, step)
            ctx.count('prune_calls')
            removed = nb - len(d)
            ctx.count('removed=%s' % (removed if removed < 4 else '4+'))
            key = (tuple(c['vals']), tuple(c['shape']), str(history)) if removed > 0 else None
            ctx.case_done(c, key, sample={'case': c, 'history': history, 'structures_before': nb, 'after': len(d)} if key else None)
            if not fails:
                # idempotence: the same call again changes nothing
                try:
                    d.prune(**dc.prune_kwargs(c, step))
                    again = snapshot(d, shape)
                    diff = same_state(after, again, trunk_order=True)
                    if diff:
                        fails.append('pruning again with the same parameters changed %s' % diff)
                except Exception as e:
                    fails.append('second prune raised %r' % (e,))
                # no-op: explicit criteria that are no stricter than the ones just enforced (which
                # every leaf therefore already meets, in the post-hoc sense) change nothing.
                # (0 would mean "inherit the recorded value", which may be stricter: not used.)
                if not fails and rng.random() < 0.4:
                    eff = effective(step, before['params'], c)
                    weak = {'delta': rng.randint(1, eff['delta']) if eff['delta'] >= 1 else 0,
                            'npix': [rng.randint(1, max(1, eff['npix'][0] // max(1, eff['npix'][1]))), 1] if eff['npix'][0] >= eff['npix'][1] else [0, 1],
                            'crit': eff.get('crit', [])}
                    recorded_zero = (weak['delta'] != 0 or float(d.params['min_delta']) == 0) and \
                                    (weak['npix'][0] != 0 or float(d.params['min_npix']) == 0)
                    if recorded_zero:
                        d.prune(**dc.prune_kwargs(c, weak))
                        again2 = snapshot(d, shape)
                        diff = [k for k in same_state(after, again2) if k != 'params']
                        if diff:
                            fails.append('prune with criteria every leaf already meets (%s) changed %s' % (weak, diff))
            if fails:
                ctx.oracle_failure({'case': c, 'history': history}, fails)
                break
            try:
                terms.append(tie.coq_prune_case(c, forest_before, params_before, step, d))
                meta.append(({'case': c, 'history': history}, {'params': dict(d.params), 'structs': impl.structs_view(d, shape)}))
            except Exception as e:
                ctx.oracle_failure({'case': c, 'history': history}, ['cannot read state after prune: %r' % (e,)])
                break
    mism, errs = common.run_coq_shards('c07_prune', HEADER, terms, 'mismatches prune_ok', shard=120, ctype='prune_case')
    ctx.errors.extend(errs)
    for i in mism[:5]:
        ctx.tie_mismatch('prune step (params, label map, structures)', meta[i][0], meta[i][1], None)


def matches_known(k, case, fails, extra):
    if k['id'] == 'K8':
        return (extra or {}).get('tag') == 'K8' and case.get('stream') == 'level-criterion'
    return False


def replay(path):
    import json
    r = json.load(open(path))
    print(json.dumps(r, indent=1)[:4000])
    case = r.get('case') or {}
    if 'case' in case and 'history' in case:
        c = case['case']
        d = impl.run_compute(c)
        shape = tuple(c['shape'])
        allf = []
        for step in case['history'][1:]:
            before = snapshot(d, shape)
            d.prune(**dc.prune_kwargs(c, step))
            fails, _ = oracle_step(c, before, d, step)
            allf += fails
        print('oracle failures on replay:', allf)
        return 1 if allf else 0
    return 1
