"""C02 — structures form a well-formed forest with consistent navigation."""
import numpy as np
from .. import common, impl, gen, tie, oracles
from . import compute_common as cc
from . import dendro_common as dc
from .c01 import ASSUMPTIONS, TRUSTED

RULE = ('dendrograms from structured random compute cases, each also pruned by a random sequence of 1-3 prune calls '
        '(parameters at comparison boundaries, also decreasing, built-in user criteria) with queries before the prune, '
        'and saved/loaded in both formats; every dendrogram: oracle recomputing all navigation from the parent links, '
        'and the navigation view (level, ancestor, descendants order, leaves, len) of the Coq model evaluated on the '
        'observed forest; non-trivial = at least three structures')
EXPLANATION = ('Theorems in props/C02.v (iteration = prefix order, parents before children, parent/level tables, '
               'descendants, lookup, ids 0..N-1 and arity after compute) + compute tie + navigation tie on computed, '
               'pruned and loaded dendrograms + oracle')

HEADER = tie.HEADER


def explore(ctx):
    rng = ctx.rng('c02')
    # the compute tie (ids, parents, child order, iteration order)
    cc.explore_compute(ctx, lambda c, d: oracles.oracle_c02(d, computed=True),
                       n_random_quick=1500, n_random_thorough=15000, exhaustive=(5, 5) if ctx.quick else (7, 7))
    terms, meta = [], []
    n = 700 if ctx.quick else 7000
    for it in range(n):
        c = dc.tree_rich_case(rng)
        peek = rng.random() < 0.2
        try:
            if peek:
                # a user criterion that accepts everything but reads levels / descendants while the tree grows
                from astrodendro import Dendrogram

                def peeking(structure, index=None, value=None):
                    structure.level, structure.descendants, structure.ancestor
                    return True
                kw = impl.compute_kwargs(c)
                cur = kw.get('is_independent')
                kw['is_independent'] = ([] if cur is None else (list(cur) if isinstance(cur, (list, tuple)) else [cur])) + [peeking]
                d = Dendrogram.compute(impl.case_array(c), **kw)
                ctx.count('computed_with_a_criterion_that_reads_levels')
            else:
                d = impl.run_compute(c)
        except Exception as e:
            ctx.oracle_failure(c, ['compute raised %r' % (e,)] + (['(with a user criterion that reads level / descendants)'] if peek else []))
            continue
        history = ['compute' + (' with a criterion that reads level/descendants' if peek else '')]
        variants = [('computed', d)]
        # warm caches, then prune (repeatedly)
        if rng.random() < 0.7:
            for s in d:
                if rng.random() < 0.5:
                    s.level, s.descendants, s.ancestor
            if rng.random() < 0.6:
                # dendrogram-level views read before the prune must not survive it
                d.leaves, d.trunk, d.all_structures, len(d), list(d)
            cur_delta = c.get('delta', 0)
            for k in range(rng.randint(1, 3)):
                step = dc.rand_prune_step(rng, c, cur_delta)
                try:
                    if rng.random() < 0.3 and len(d):
                        # drawing a sub-tree reads (and must not disturb) the cached descendants
                        s_ = rng.choice(list(d._structures_dict.values()))
                        d.plotter().get_lines(structures=rng.choice([s_, [s_], int(s_.idx)]), subtree=True)
                    kwp = dc.prune_kwargs(c, step)
                    d.prune(**(dc.with_peeking(kwp) if rng.random() < 0.3 else kwp))
                except Exception as e:
                    ctx.oracle_failure({'case': c, 'history': history + [step]}, ['prune raised %r' % (e,)])
                    break
                history.append(step)
                cur_delta = max(cur_delta, step.get('delta', 0))
                if rng.random() < 0.5:
                    for s in d:
                        s.level, s.descendants
                if rng.random() < 0.5:
                    d.leaves, d.all_structures, list(d)
            variants = [('pruned', d)]
        if rng.random() < 0.3 and len(d):
            s_ = rng.choice(list(d._structures_dict.values()))
            for _ in range(rng.randint(1, 2)):
                d.plotter().get_lines(structures=rng.choice([s_, [s_], int(s_.idx)]), subtree=True)
            history = history + ['get_lines(structure %d, subtree)' % s_.idx]
        if rng.random() < 0.35:
            fmt = rng.choice(['hdf5', 'fits'])
            try:
                d2 = dc.save_load(d, fmt, how=rng.choice(['explicit', 'auto']))
                variants.append(('loaded-' + fmt, d2))
                history = history + ['save/load ' + fmt]
            except Exception as e:
                ctx.oracle_failure({'case': c, 'history': history + ['save/load ' + fmt]}, ['save/load raised %r' % (e,)])
        for kind, dd in variants:
            ctx.count('dendrogram=' + kind)
            fails = oracles.oracle_c02(dd, computed=(kind == 'computed'))
            key = None
            if len(dd) >= 3:
                key = (kind, tuple(c['vals']), tuple(c['shape']), str(history))
            ctx.case_done(c, key, sample={'case': c, 'history': history, 'kind': kind, 'nav': tie.nav_obs(dd)[0]} if key else None)
            if fails:
                ctx.oracle_failure({'case': c, 'history': history, 'kind': kind}, fails)
            try:
                terms.append(tie.coq_nav_case(dd, c))
                meta.append(({'case': c, 'history': history, 'kind': kind}, tie.nav_obs(dd)))
            except Exception as e:
                ctx.oracle_failure({'case': c, 'history': history, 'kind': kind}, ['cannot read the forest: %r' % (e,)])
    mism, errs = common.run_coq_shards('c02_nav', HEADER, terms, 'mismatches nav_ok', shard=250, ctype='nav_case')
    ctx.errors.extend(errs)
    for i in mism[:5]:
        ctx.tie_mismatch('navigation view (level, ancestor, descendants, leaves, len)', meta[i][0], meta[i][1], None)


def matches_known(k, case, fails, extra):
    return False


def replay(path):
    import json
    r = json.load(open(path))
    print(json.dumps(r, indent=1)[:4000])
    case = r.get('case') or {}
    if 'vals' in case:
        d, obs = impl.compute_obs(case)
        fails = oracles.oracle_c02(d)
        print('oracle on the computed dendrogram:', fails)
        return 1 if fails else 0
    if 'case' in case and 'history' in case:
        c = case['case']
        d = impl.run_compute(c)
        for step in case['history'][1:]:
            if isinstance(step, dict):
                for s in d:
                    s.level, s.descendants, s.ancestor
                d.prune(**dc.prune_kwargs(c, step))
        fails = oracles.oracle_c02(d, computed=False)
        print('oracle after replaying the history:', fails)
        return 1 if fails else 0
    return 1
