"""C18 — the plotted tree is planar and drawn at the right heights."""
import copy, itertools
from fractions import Fraction
import numpy as np
from .. import common, impl, gen, tie, oracles
from ..common import cz, clist, copt, cbool
from . import dendro_common as dc
from . import c09
from .c01 import ASSUMPTIONS, TRUSTED
from astrodendro import Dendrogram
from astrodendro.structure import Structure

RULE = ('dendrograms computed / pruned / loaded and synthetic forests of every shape up to 6 (quick) / 7 (thorough) nodes; '
        'default key (peak value) and random integer keys with ties, reverse on/off, custom positions; observed: '
        '_cached_positions, the segments and .structures of get_lines for the whole tree, for a structure given as id / '
        'numpy id / object / list with and without subtree, plot_tree with subtree on/off, the mask handed to Axes.contour '
        '(2-D and 3-D, default and explicit slice, both subtree modes); compared with the Coq layout model (exact rationals, '
        'tolerance 1e-9) and with the statement of C18; non-trivial = at least four structures')
EXPLANATION = ('Theorems in props/C18.v on the layout model + layout/segment tie (model evaluated by vm_compute, positions as '
               'exact fractions) + oracle (consecutive leaves, contiguous intervals, means, sibling order, segment geometry, '
               'contour masks)')
HEADER = tie.HEADER.replace('Compute Corr.', 'Compute Plot Corr.')


class RecAxes:
    def __init__(self):
        self.masks = []

    def contour(self, mask, **kw):
        self.masks.append(np.array(mask, copy=True))

    def add_collection(self, lines):
        self.lines = lines

    def margins(self, *a):
        pass

    def autoscale_view(self, *a):
        pass


def seg_list(sc):
    out = []
    for seg, s in zip(sc.get_segments(), sc.structures):
        (x1, y1), (x2, y2) = seg
        out.append((int(s.idx), (float(x1), float(y1)), (float(x2), float(y2))))
    return out


def statement_oracle(d, p, keyfn, reverse, custom=False):
    """C18 evaluated on the plotter state."""
    fails = []
    pos = {s: float(x) for s, x in p._cached_positions.items()}
    structs = list(d._structures_dict.values())
    if set(id(s) for s in pos) != set(id(s) for s in structs):
        fails.append('positions are defined for %d objects, the dendrogram has %d structures' % (len(pos), len(structs)))
        return fails
    leaves = [s for s in structs if not s.children]
    if not custom:
        lp = sorted(pos[s] for s in leaves)
        if lp != [float(i) for i in range(len(leaves))]:
            fails.append('leaf positions %s are not 0..%d' % (lp, len(leaves) - 1))
        for s in structs:
            below = [s]
            todo = list(s.children)
            while todo:
                y = todo.pop()
                below.append(y)
                todo.extend(y.children)
            xs = sorted(pos[y] for y in below if not y.children)
            if xs != [xs[0] + i for i in range(len(xs))]:
                fails.append('leaves of %d occupy %s, not a contiguous interval' % (s.idx, xs))
            if not (xs[0] - 1e-9 <= pos[s] <= xs[-1] + 1e-9):
                fails.append('structure %d at %s lies outside its leaves %s' % (s.idx, pos[s], xs))
            if s.children:
                m = sum(pos[c] for c in s.children) / len(s.children)
                if abs(m - pos[s]) > 1e-9:
                    fails.append('branch %d at %s, mean of its children %s' % (s.idx, pos[s], m))
        # siblings and trunk structures in key order
        groups = [list(d.trunk)] + [list(s.children) for s in structs if s.children]
        for g in groups:
            for a in g:
                for b in g:
                    ka, kb = keyfn(a), keyfn(b)
                    if (ka < kb and not reverse) or (ka > kb and reverse):
                        la = max(pos[y] for y in [a] + a.descendants if not y.children)
                        lb = min(pos[y] for y in [b] + b.descendants if not y.children)
                        if not la < lb:
                            fails.append('structures %d (key %s) and %d (key %s) are not ordered by the key' % (a.idx, ka, b.idx, kb))
    # segments
    sc = p.get_lines()
    segs = seg_list(sc)
    want = []

    def own_values(s):
        return [float(v) for v in s._values] if getattr(s, '_tree_index', None) is None else [float(v) for v in np.asarray(s.values(subtree=False)).ravel()]

    def height(s):
        # from the pixel values (not from Structure.height, nor from a file): the faintest own pixel among the
        # children where the structure branches, its own brightest pixel for a leaf
        return min(min(own_values(c)) for c in s.children) if s.children else max(own_values(s))
    for s in d:
        x = pos[s]
        bot = height(s.parent) if s.parent is not None else min(own_values(s))
        top = height(s)
        want.append((int(s.idx), (x, bot), (x, top)))
        if s.children:
            pc = [pos[c] for c in s.children]
            want.append((int(s.idx), (min(pc), top), (max(pc), top)))
    if not approx_segs(segs, want):
        fails.append('get_lines() segments %s differ from the expected geometry %s' % (segs[:6], want[:6]))
    return fails


def approx_segs(a, b):
    if len(a) != len(b):
        return False
    for x, y in zip(a, b):
        if x[0] != y[0]:
            return False
        for u, v in zip(x[1] + x[2], y[1] + y[2]):
            if abs(u - v) > 1e-9 * max(1.0, abs(v)):
                return False
    return True


def q(v):
    return Fraction(int(v[0]), int(v[1]))


def plot_term(d, case, keytb, reverse, sel):
    kt = clist(sorted(keytb.items()), lambda e: '(%s, %s)' % (cz(e[0]), cz(e[1])))
    f = tie.coq_forest(d, case)
    return '(positions_view %s %s %s, (lines_view %s %s %s %s, lines_view %s %s %s %s))' % (
        kt, cbool(reverse), f,
        kt, cbool(reverse), f, clist([s.idx for s in d]),
        kt, cbool(reverse), f, clist(sel))


def explore(ctx):
    rng = ctx.rng('c18')
    terms, expect = [], []
    n = 220 if ctx.quick else 2200
    sources = []
    for it in range(n):
        c = dc.tree_rich_case(rng)
        c['crit'] = []
        if rng.random() < 0.4 and not c.get('den'):
            # values on a grid of 2**-5 ... 2**-12: not expressible with the three decimals of the Newick text
            c['scale'] = rng.choice([5, 7, 12])
        try:
            d = impl.run_compute(c)
            kind = 'computed'
            if rng.random() < 0.35:
                d.prune(**dc.prune_kwargs(c, dc.rand_prune_step(rng, c)))
                kind = 'pruned'
            if rng.random() < 0.25:
                d = dc.save_load(d, rng.choice(['hdf5', 'fits']))
                kind = 'loaded'
        except Exception as e:
            ctx.oracle_failure(c, ['building the dendrogram raised %r' % (e,)])
            continue
        sources.append((c, d, kind))
    # synthetic forests: every shape
    srng = ctx.rng('c18-shapes')
    for n_nodes in range(1, (6 if ctx.quick else 7) + 1):
        for forest in c09.all_shapes(n_nodes):
            ids = list(range(n_nodes))
            srng.shuffle(ids)
            dd = Dendrogram()
            vals = {}

            def build(shape):
                idx = ids.pop()
                kids = [build(k) for k in shape]
                v = srng.randint(1, 40)
                vals[idx] = v
                s = Structure((idx,), float(v), children=kids, idx=idx) if kids else Structure((idx,), float(v), idx=idx)
                return s
            dd.trunk = [build(t) for t in forest]
            dd._structures_dict = {}
            for t in dd.trunk:
                t._level = 0
                for s in [t] + t.descendants:
                    dd._structures_dict[s.idx] = s
            case = {'shape': [n_nodes], 'vals': [vals[i] for i in range(n_nodes)], 'scale': 0}
            sources.append((case, dd, 'synthetic'))
    for c, d, kind in sources:
        if len(d) == 0:
            continue
        shape = tuple(c['shape'])
        ctx.count('source=' + kind)
        reverse = rng.random() < 0.5
        mode = rng.choice(['default', 'custom-key', 'custom-key'])
        try:
            p = d.plotter()
            if mode == 'default':
                # the default key is the brightest pixel of the structure with its substructures: taken here from the
                # pixel values themselves (a branch may own a spike above all its children), not from get_peak
                def brightest(s):
                    own = [max(float(v) for v in x._values) for x in [s] + list(s.descendants)] if kind == 'synthetic' \
                        else [float(np.max(np.asarray(s.values(subtree=True), dtype=float)))]
                    return max(own)
                keytb = {int(s.idx): tie.to_scaled(brightest(s), c) for s in d}
                keyfn = brightest
                p.sort(reverse=reverse)
            else:
                keytb = {int(s.idx): rng.randint(0, 4) for s in d}
                keyfn = lambda s, kt=keytb: kt[s.idx]
                p.sort(sort_key=keyfn, reverse=reverse)
        except Exception as e:
            ctx.oracle_failure({'case': c, 'kind': kind}, ['plotter raised %r' % (e,)])
            continue
        fails = statement_oracle(d, p, keyfn, reverse)
        key = (kind, tuple(c['vals']), str(sorted(keytb.items())), reverse) if len(d) >= 4 else None
        ctx.case_done(c, key, sample={'case': c, 'kind': kind, 'reverse': reverse, 'key': mode,
                                      'positions': sorted((int(s.idx), float(x)) for s, x in p._cached_positions.items())} if key else None)
        # selections through every argument form
        structs = list(d._structures_dict.values())
        s0 = rng.choice(structs)
        sel_obs = None
        try:
            forms = [(s0.idx, True), (np.int64(s0.idx), True), (s0, True), ([s0], True), (s0, False), (s0.idx, False), ([s0.idx], False)]
            results = []
            for arg, sub in forms:
                results.append((sub, seg_list(p.get_lines(structures=arg, subtree=sub))))
            for sub, r in results:
                ref = [x for s_, x in results if s_ == sub][0]
                if r != ref:
                    fails.append('get_lines gives different segments for different ways of naming structure %d (subtree=%s)' % (s0.idx, sub))
            sel_obs = results[0][1]
            want_ids = [int(x.idx) for x in s0.descendants] + [int(s0.idx)]
            got_ids = []
            for i, _, _ in sel_obs:
                if not got_ids or got_ids[-1] != i:
                    got_ids.append(i)
            if got_ids != want_ids:
                fails.append('get_lines(structure %d, subtree=True) draws %s, expected %s' % (s0.idx, got_ids, want_ids))
            if sorted(set(i for i, _, _ in results[4][1])) != [int(s0.idx)]:
                fails.append('get_lines(structure %d, subtree=False) draws %s' % (s0.idx, sorted(set(i for i, _, _ in results[4][1]))))
            ax = RecAxes()
            p.plot_tree(ax, structure=s0, subtree=False)
            if seg_list(ax.lines) != results[4][1]:
                fails.append('plot_tree(structure, subtree=False) does not draw the single structure')
            ax = RecAxes()
            p.plot_tree(ax, structure=s0.idx, subtree=True)
            if seg_list(ax.lines) != sel_obs:
                fails.append('plot_tree(structure id) differs from get_lines')
        except Exception as e:
            fails.append('get_lines / plot_tree raised %r' % (e,))
        # contours (real dendrograms on 2-D / 3-D data only)
        if kind != 'synthetic' and len(shape) in (2, 3):
            try:
                for sub in (True, False):
                    for sl in ([None] if len(shape) == 2 else [None, 0, shape[0] - 1]):
                        for arg in (s0, s0.idx, np.int64(s0.idx)):
                            ax = RecAxes()
                            p.plot_contour(ax, structure=arg, subtree=sub, slice=sl)
                            m = s0.get_mask(subtree=sub)
                            if len(shape) == 3:
                                k = sl if sl is not None else s0.get_peak(subtree=sub)[0][0]
                                m = m[k, :, :]
                            if len(ax.masks) != 1 or ax.masks[0].shape != m.shape or not (ax.masks[0] == m).all():
                                fails.append('plot_contour(structure %d, subtree=%s, slice=%s) does not outline its mask in that slice' % (s0.idx, sub, sl))
            except Exception as e:
                fails.append('plot_contour raised %r' % (e,))
        # custom positions
        try:
            p2 = d.plotter()
            table = {int(s.idx): rng.randint(0, 50) / 4.0 for s in d}
            p2.set_custom_positions(lambda s: table[s.idx])
            got = {int(s.idx): float(x) for s, x in p2._cached_positions.items()}
            if got != table:
                fails.append('custom positions are not used as given')
            fails += [f for f in statement_oracle(d, p2, keyfn, reverse, custom=True)]
            # history on one plotter: sort, place by hand, sort again with the same key and direction - the sorted
            # layout must be back
            p3 = d.plotter()
            for _round in range(2):
                if mode == 'default':
                    p3.sort(reverse=reverse)
                else:
                    p3.sort(sort_key=keyfn, reverse=reverse)
                if _round == 0:
                    p3.set_custom_positions(lambda s: table[s.idx])
            back = {int(s.idx): float(x) for s, x in p3._cached_positions.items()}
            want = {int(s.idx): float(x) for s, x in p._cached_positions.items()}
            if back != want:
                fails.append('sort() after set_custom_positions() leaves positions %s, a sorted plotter has %s' % (sorted(back.items()), sorted(want.items())))
        except Exception as e:
            fails.append('custom positions raised %r' % (e,))
        if fails:
            ctx.oracle_failure({'case': c, 'kind': kind, 'reverse': reverse, 'key': mode, 'keytb': sorted(keytb.items())}, fails)
            continue
        try:
            terms.append(plot_term(d, c, keytb, reverse, [int(x.idx) for x in s0.descendants] + [int(s0.idx)]))
            expect.append(({'case': c, 'kind': kind, 'reverse': reverse, 'keytb': sorted(keytb.items())},
                           sorted((int(s.idx), float(x)) for s, x in p._cached_positions.items()),
                           seg_list(p.get_lines()), sel_obs))
        except Exception as e:
            ctx.oracle_failure({'case': c, 'kind': kind}, ['cannot emit the model case: %r' % (e,)])
    # evaluate the model in batches and compare numerically
    vals, errs = common.coq_dump_many('c18_plot', HEADER, terms, batch=30)
    ctx.errors.extend(errs)
    if True:
        expect_ = [(e, v) for e, v in zip(expect, vals) if v is not None]
        for (info, pos_obs, lines_obs, sel_obs), out in expect_:
            mpos, (mlines, msel) = out
            mp = sorted((int(i), float(q(v))) for i, v in mpos)
            ok = len(mp) == len(pos_obs) and all(a[0] == b[0] and abs(a[1] - b[1]) <= 1e-9 for a, b in zip(mp, pos_obs))

            def conv(ml, scale_case):
                den = float(scale_case.get('den') or 2 ** scale_case.get('scale', 0))
                # Coq prints left-nested pairs flat: (id, (n1, d1, y1, (n2, d2, y2)))
                out_ = []
                for i, (n1, d1, y1, (n2, d2, y2)) in ml:
                    out_.append((int(i), (float(Fraction(n1, d1)), y1 / den), (float(Fraction(n2, d2)), y2 / den)))
                return out_
            if ok:
                ok = approx_segs(lines_obs, conv(mlines, info['case'])) and approx_segs(sel_obs, conv(msel, info['case']))
            if not ok:
                ctx.tie_mismatch('plot layout and segments (Plot.positions / get_lines)', info,
                                 {'positions': pos_obs, 'lines': lines_obs[:8]}, {'positions': mp, 'lines': conv(mlines, info['case'])[:8]})


def matches_known(k, case, fails, extra):
    return False


def replay(path):
    import json
    r = json.load(open(path))
    print(json.dumps(r, indent=1)[:4000])
    return 1
