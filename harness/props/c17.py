"""C17 — periodic axes wrap, and only they do."""
import copy, itertools
import numpy as np
from .. import common, impl, gen, tie, oracles
from . import compute_common as cc
from . import dendro_common as dc
from . import grid_common
from .c01 import ASSUMPTIONS, TRUSTED
from .c16 import hierarchy_mapped, coarse
from astrodendro import Dendrogram, periodic_neighbours

RULE = ('(i) periodic_neighbours(axes) for every subset of axes (given as int, negative int, list, tuple, array) resolved '
        'through the padded label map against Grid.nbrs and an independent reference, every pixel of every shape with axis '
        'lengths 1-3 (quick) / 1-4 (thorough) in 1-4 D plus a few longer ones; (ii) compute with periodic adjacency: base '
        'run tied to the Coq model, C01/C03 oracles with wrap-around components; (iii) every cyclic shift 0..n along every '
        'periodic axis: distinct values -> identical hierarchy on the shifted pixels, ties -> same trunk regions, assigned '
        'set and (no pruning) number of leaves; non-trivial = a structure that straddles an array edge')
EXPLANATION = ('Theorems in props/C17.v (axis neighbour characterisation, coordinate shift, symmetry of the wrap-around '
               'adjacency, C01/C03 statements instantiated for periodic grids, order independence of regions; a cyclic shift '
               'by any amount along any periodic axis is an automorphism of the adjacency graph, and every such isomorphism commutes '
               'with the construction) + ties (compute; shift maps vs numpy.roll) + metamorphic oracle')


def axes_forms(rng, per):
    idx = [i for i, b in enumerate(per) if b]
    nd = len(per)
    forms = [idx, tuple(idx), np.array(idx), [i - nd for i in idx], [np.int64(i) for i in idx]]
    if len(idx) == 1:
        forms += [idx[0], idx[0] - nd, np.int64(idx[0]), np.int32(idx[0] - nd), np.array(idx[0])]
    if not idx:
        forms = [[], (), np.array([], dtype=int)]       # the empty subset of axes
    return forms


def explore(ctx):
    grid_common.neighbour_tie(ctx, max_len=3 if ctx.quick else 4)
    grid_common.reused_adjacency_stream(ctx, 120 if ctx.quick else 1200)
    rng = ctx.rng('c17')
    # (i') the ways of declaring the axes all mean the same thing
    for shape in ([4], [2, 3], [3, 1, 4], [2, 2, 3], [1, 3, 2, 2], [5, 2]):
        nd = len(shape)
        for per in itertools.product([False, True], repeat=nd):
            ref = [sorted(r) for r in oracles.grid_neighbours(shape, list(per))]
            for form in axes_forms(rng, per):
                case = {'shape': shape, 'adj': ['grid', list(per)]}
                try:
                    fn = periodic_neighbours(form)

                    class D:
                        pass
                    dd = D()
                    dd.n_dim = nd
                    dd.index_map = np.zeros(tuple(s + 1 for s in shape), dtype=np.int32)
                    table = []
                    for p in range(int(np.prod(shape))):
                        c = np.unravel_index(p, tuple(shape))
                        res = []
                        for q in fn(dd, np.array(c)):
                            q = tuple(int(x) if x >= 0 else int(x) + shape[i] + 1 for i, x in enumerate(q))
                            if all(0 <= x < shape[i] for i, x in enumerate(q)):
                                res.append(impl.ravel(shape, q))
                        table.append(sorted(res))
                except Exception as e:
                    ctx.oracle_failure({'shape': shape, 'periodic': list(per), 'axes_given_as': repr(form)}, ['periodic_neighbours raised %r' % (e,)])
                    continue
                ctx.count('axes_form=%s' % type(form).__name__)
                ctx.case_done(None, ('form', tuple(shape), per, repr(form)))
                if table != ref:
                    ctx.oracle_failure({'shape': shape, 'periodic': list(per), 'axes_given_as': repr(form)},
                                       ['neighbour table %s differs from wrap-around +-1 adjacency %s' % (table, ref)])
    cases, refs = [], []
    n = 220 if ctx.quick else 2200
    for it in range(n):
        c = dc.tree_rich_case(rng, maxpix=30)
        nd = len(c['shape'])
        per = [rng.random() < 0.6 for _ in range(nd)]
        if not any(per):
            per[rng.randrange(nd)] = True
        c['adj'] = ['grid', per]
        c.pop('per_scalar', None)
        c['crit'] = []
        if rng.random() < 0.6:
            vals = list(range(1, gen.nprod(c['shape']) + 1))
            rng.shuffle(vals)
            c['vals'] = vals
        c['scale'] = 0
        c['dtype'] = 'float64'
        if c.get('minv') is None:
            c['minv'] = min(v for v in c['vals'] if v is not None) - 1 + rng.choice([0, 0, 3])
        shape = tuple(c['shape'])
        try:
            d0, obs0 = impl.compute_obs(c)
        except Exception as e:
            ctx.oracle_failure(c, ['compute raised %r' % (e,)])
            continue
        cases.append(c)
        refs.append(obs0)
        fails = oracles.oracle_c01(c, d0) + oracles.oracle_c03(c, d0)
        if fails:
            ctx.oracle_failure(c, fails)
            continue
        npx = gen.nprod(shape)
        ident = list(range(npx))
        h0, c0 = hierarchy_mapped(d0, shape, ident), coarse(d0, shape, ident)
        kept_vals = [v for v in c['vals'] if v is not None and v > c['minv']]
        distinct = len(set(kept_vals)) == len(kept_vals)
        nopruning = c.get('delta', 0) == 0 and c.get('npix', [0, 1])[0] == 0
        # does a structure straddle an edge?
        straddle = False
        for s in d0:
            coords = np.array(np.unravel_index(oracles.flat_indices(shape, s.indices(subtree=True)), shape))
            for a in range(nd):
                if per[a] and shape[a] > 2 and 0 in coords[a] and shape[a] - 1 in coords[a] and len(set(coords[a])) < shape[a]:
                    straddle = True
        key = (tuple(c['vals']), shape, tuple(per), c['minv'], c.get('delta')) if straddle else None
        ctx.case_done(c, key, sample={'case': c} if key else None)
        arr = impl.case_array(dict(c, layout='C'))
        idx = np.arange(npx).reshape(shape)
        kw = impl.compute_kwargs(c)
        for a in range(nd):
            if not per[a]:
                continue
            for k in range(0, shape[a] + 1):
                arr2, idx2 = np.roll(arr, k, axis=a), np.roll(idx, k, axis=a)
                try:
                    d = Dendrogram.compute(arr2.copy(), **kw)
                except Exception as e:
                    ctx.oracle_failure({'case': c, 'shift': [a, k]}, ['compute raised %r' % (e,)])
                    continue
                pm = [int(x) for x in idx2.ravel().tolist()]
                f = []
                if distinct and hierarchy_mapped(d, shape, pm) != h0:
                    f.append('hierarchy differs after shifting axis %d by %d' % (a, k))
                cz_ = coarse(d, shape, pm)
                if cz_[0] != c0[0]:
                    f.append('trunk regions differ after shifting axis %d by %d' % (a, k))
                if cz_[1] != c0[1]:
                    f.append('assigned pixels differ after shifting axis %d by %d' % (a, k))
                if nopruning and cz_[2] != c0[2]:
                    f.append('number of leaves differs after shifting axis %d by %d' % (a, k))
                ctx.count('shifts')
                if f:
                    ctx.oracle_failure({'case': c, 'shift': [a, k]}, f)
                    break
    mism, errs = tie.run_compute_tie('c17_tie', cases, refs)
    ctx.errors.extend(errs)
    for i in mism[:5]:
        ctx.tie_mismatch('compute with periodic adjacency', cases[i], refs[i], tie.model_compute_view(cases[i], 'c17_dump'))
    # the cyclic shifts the theorems speak about are the ones numpy.roll performs
    from . import relabel_common as rc
    rc.run_relabel_tie(ctx, 'c17_relab', ['roll', 'roll', 'flip'], 200 if ctx.quick else 2000)


def matches_known(k, case, fails, extra):
    return False


def replay(path):
    import json
    r = json.load(open(path))
    print(json.dumps(r, indent=1)[:4000])
    return 1
