"""C01 — every above-threshold pixel is labelled exactly once; nothing else is."""
import numpy as np
from .. import common, impl, gen, tie, oracles
from . import compute_common as cc

RULE = ('structured random compute cases (1-4 D, ties/plateaus, NaN holes, thresholds at/around data values, '
        'min_delta/min_npix at comparison boundaries, built-in user criteria, default/periodic/diagonal adjacency), '
        'all value orderings on grids up to 5 (quick) / 7 (thorough) cells, all 3-letter arrays on grids up to 6/8 cells, '
        'dtype sweep for the default threshold; non-trivial = at least two structures; distinct by full input')
EXPLANATION = ('Theorems about the Coq model (props/C01.v) + correspondence of the model with /repo on every generated '
               'case (order, label map, structures) + direct evaluation of the property on the implementation')
ASSUMPTIONS = ['values and thresholds are integers or dyadic rationals exactly representable in the array dtype '
               '(float rounding of min_value against float32 data is outside the integer model)',
               'user adjacency is symmetric', '+-inf excluded']
TRUSTED = []


def oracle(case, d):
    return oracles.oracle_c01(case, d)


def dtype_cases(rng, quick):
    """Default threshold on boundary-valued data of every real dtype (oracle only:
    the values need not be representable as small integers of the model)."""
    out = []
    for dt in ['uint8', 'uint16', 'uint32', 'int8', 'int16', 'int32', 'int64', 'float32', 'float64', 'float16']:
        info = np.iinfo(dt) if np.dtype(dt).kind in 'iu' else None
        for _ in range(10 if quick else 60):
            n = rng.randint(2, 8)
            if info is not None:
                lo = info.min
                base = rng.choice([lo, lo, lo + 1, 0, info.max - 10])
                arr = np.array([min(info.max, max(info.min, base + rng.randint(0, 9))) for _ in range(n)], dtype=dt)
                if rng.random() < 0.7:
                    arr[rng.randrange(n)] = lo if base == lo else base
            else:
                mag = rng.choice([1.0, 1e3, 2.0 ** 24, 2.0 ** 25 + 4, 2.0 ** 53, 2.0 ** 60, 1e20, -2.0 ** 53, -1e20, 4096.0, 60000.0,
                                  -2.0 ** 53, -2.0 ** 54, -2.0 ** 60, -1e20, -2.0 ** 25])
                if dt == 'float16':
                    mag = rng.choice([1.0, 2048.0, 4096.0, 8192.0, -4096.0, 30000.0, -2048.0, -4096.0, -8192.0])
                ks = [rng.randint(0, 5) for _ in range(n)]
                if mag < 0 and rng.random() < 0.7:
                    ks[rng.randrange(n)] = 0          # the minimum itself is the huge negative number (no float one below it)
                arr = (np.array(ks, dtype='float64') * abs(mag) * 2.0 ** -3 + mag).astype(dt)
                if rng.random() < 0.3:
                    arr[rng.randrange(n)] = np.nan
                if not np.isfinite(arr).any() or np.isinf(arr).any():
                    continue
            out.append(arr)
    return out


def dtype_oracle(arr):
    """Default min_value: every finite pixel must be strictly above it and kept."""
    from astrodendro import Dendrogram
    fails = []
    d = Dendrogram.compute(arr.copy())
    mv = d.params['min_value']
    fin = np.isfinite(arr.astype('float64')) if arr.dtype.kind == 'f' else np.ones(arr.shape, bool)
    import fractions
    for i in np.flatnonzero(fin):
        x = arr[i].item()
        try:
            below = fractions.Fraction(mv.item() if hasattr(mv, 'item') else mv) < fractions.Fraction(x)
        except Exception:
            below = mv < x
        if not below:
            fails.append('default min_value %r is not strictly below finite pixel %r (dtype %s)' % (mv, x, arr.dtype))
            break
    lab = d.index_map.ravel()
    if len(d) > 0 or fin.sum() > 0:
        un = [int(i) for i in np.flatnonzero(fin) if lab[i] < 0]
        if un:
            fails.append('finite pixels %s of %s (dtype %s) are unassigned with all-default parameters' % (un, arr.tolist(), arr.dtype))
    return fails


def explore(ctx):
    cc.explore_compute(ctx, oracle, n_random_quick=2500, n_random_thorough=30000,
                       exhaustive=(5, 6) if ctx.quick else (7, 8))
    rng = ctx.rng('dtype')
    for arr in dtype_cases(rng, ctx.quick):
        try:
            fails = dtype_oracle(arr)
        except Exception as e:
            fails = ['compute raised %r on %s dtype %s' % (e, arr.tolist(), arr.dtype)]
        ctx.count('dtype=%s' % arr.dtype)
        ctx.case_done(None)
        if fails:
            ctx.oracle_failure({'array': arr.tolist(), 'dtype': str(arr.dtype), 'stream': 'default-threshold'}, fails)


def matches_known(k, case, fails, extra):
    return False


def shrink(case, fails, extra):
    if 'vals' not in case:
        return case

    def pred(c):
        d, _ = impl.compute_obs(c)
        return bool(oracle(c, d))
    return cc.shrink_compute(case, pred)


def replay(path):
    import json
    r = json.load(open(path))
    case = r.get('case')
    if case and 'vals' in case:
        d, obs = impl.compute_obs(case)
        fails = oracle(case, d)
        print('implementation:', obs)
        print('model:', tie.model_compute_view(case, 'c01_replay'))
        print('oracle failures:', fails)
        return 1 if fails else 0
    if case and 'array' in case:
        fails = dtype_oracle(np.array(case['array'], dtype=case['dtype']))
        print('oracle failures:', fails)
        return 1 if fails else 0
    print(json.dumps(r, indent=1)[:3000])
    return 1


# ---- thresholds that are not representable in a narrow float dtype (oracle only)
def float_threshold_cases(rng, quick):
    out = []
    for _ in range(150 if quick else 2000):
        dt = rng.choice(['float32', 'float32', 'float16'])
        n = rng.randint(2, 8)
        base = [rng.choice([0.1, 0.2, 0.3, 0.7, 1.1, 2.3, 0.05, 1e-3, 3.3]) * rng.choice([1, 1, 2, 3]) for _ in range(n)]
        arr = np.array(base, dtype=dt)
        t = float(rng.choice(base))               # the decimal, generally NOT representable in dt
        kind = rng.choice(['np64', 'np64', 'pyfloat', 'rounded'])
        if kind == 'rounded':
            t = float(arr[rng.randrange(n)])       # exactly a pixel value: must be excluded
        out.append((arr, t, kind))
    return out


def int_threshold_cases(rng, quick):
    """Integer thresholds lying between two values of a narrow float dtype (float16 above 2048, float32 above 2**24)."""
    out = []
    for _ in range(60 if quick else 800):
        dt = rng.choice(['float16', 'float16', 'float32'])
        lo = 2048 if dt == 'float16' else 2 ** 24
        step = rng.choice([2, 4]) if dt == 'float16' else rng.choice([2, 4])
        start = lo * (step // 2) + step * rng.randint(0, 200)
        vals = [start + step * rng.randint(0, 12) for _ in range(rng.randint(2, 7))]
        arr = np.array(vals, dtype=dt)
        t = int(rng.choice(vals)) + rng.choice([-1, 1, -1, 0]) * rng.randint(1, step - 1) if step > 1 else int(rng.choice(vals))
        out.append((arr, t, rng.choice(['pyint', 'pyint', 'npint'])))
    return out


def bigint_threshold_cases(rng, quick):
    """64-bit integer data beyond 2**53 with a float threshold: comparing through float64 would round the data."""
    out = []
    for _ in range(40 if quick else 500):
        dt = rng.choice(['int64', 'int64', 'uint64'])
        B = 2 ** rng.choice([53, 54, 60, 62]) * rng.choice([1, 1, -1] if dt == 'int64' else [1])
        vals = [B + rng.randint(-6, 6) for _ in range(rng.randint(3, 8))]
        arr = np.array(vals, dtype=dt)
        t = float(B + rng.choice([0, 0, 2, -2, 4]))          # representable: a multiple of the float spacing there
        if float(t) != t or int(t) != t:
            continue
        kind = rng.choice(['pyfloat', 'np64', 'np32'])
        if kind == 'np32' and float(np.float32(t)) != t:
            kind = 'np64'
        out.append((arr, float(t), kind))
    return out


def float_threshold_oracle(arr, t, kind):
    from astrodendro import Dendrogram
    import fractions
    mv = np.float64(t) if kind in ('np64', 'rounded') else (np.int64(t) if kind == 'npint' else (np.float32(t) if kind == 'np32' else t))
    d = Dendrogram.compute(arr.copy(), min_value=mv)
    lab = d.index_map.ravel()
    fails = []
    if fractions.Fraction(float(d.params['min_value'])) != fractions.Fraction(t):
        fails.append('recorded min_value %r is not the requested %r' % (d.params['min_value'], t))
    for i in range(arr.size):
        exact = fractions.Fraction(int(arr[i])) if arr.dtype.kind in 'iu' else fractions.Fraction(float(arr[i]))
        above = exact > fractions.Fraction(float(d.params['min_value']))
        if above != (lab[i] >= 0):
            fails.append('pixel %d = %r (dtype %s) is %sstrictly above min_value %r but is %slabelled' % (
                i, arr[i].item(), arr.dtype, '' if above else 'not ', d.params['min_value'], '' if lab[i] >= 0 else 'not '))
            break
    return fails


_explore0 = explore


def infinity_stream(ctx):
    """+inf is a number: arrays with infinite pixels (isolated ones, plateaus, next to finite ones and NaN), default and
    explicit thresholds, no pruning parameters - every pixel strictly above min_value is assigned, nothing else is, and
    prune() with inherited parameters changes nothing.  Oracle only (the integer model has no infinities)."""
    from astrodendro import Dendrogram
    rng = ctx.rng('c01-inf')
    for it in range(80 if ctx.quick else 800):
        n = rng.randint(3, 9)
        vals = [rng.choice([0.5, 1.0, 2.0, 3.0, 3.5, np.inf, np.inf, np.nan]) for _ in range(n)]
        if not any(np.isfinite(v) for v in vals):
            vals[0] = 1.0
        arr = np.array(vals)
        if rng.random() < 0.3 and n % 2 == 0:
            arr = arr.reshape(2, n // 2)
        explicit = rng.random() < 0.5
        mv = rng.choice([0.0, 1.0, 2.5])
        try:
            d = Dendrogram.compute(arr.copy(), **({'min_value': mv} if explicit else {}))
            lab = d.index_map.ravel().tolist()
            thr = float(d.params['min_value'])
            flat = arr.ravel().tolist()
            bad = [i for i, x in enumerate(flat) if ((x == x) and x > thr) != (lab[i] >= 0)]
            before = (d.index_map.tolist(), len(d))
            d.prune()
            after = (d.index_map.tolist(), len(d))
        except Exception as e:
            ctx.oracle_failure({'stream': 'infinite pixels', 'data': repr(vals), 'shape': list(arr.shape)}, ['raised %r' % (e,)])
            continue
        ctx.count('infinite_pixel_cases')
        ctx.case_done(None, ('inf', repr(vals), arr.shape, explicit, mv))
        fails = []
        if bad:
            fails.append('pixels %s are labelled / unlabelled against the rule "a number strictly above min_value=%r" (labels %s)' % (bad, thr, lab))
        if before != after:
            fails.append('prune() with the inherited parameters changed the dendrogram (%d -> %d structures)' % (before[1], after[1]))
        if fails:
            ctx.oracle_failure({'stream': 'infinite pixels', 'data': repr(vals), 'shape': list(arr.shape), 'min_value': mv if explicit else 'default'}, fails)


def explore(ctx):
    _explore0(ctx)
    infinity_stream(ctx)
    cc.infinity_tie_stream(ctx, 200 if ctx.quick else 2000, 'c01_inf_tie')
    from . import grid_common
    grid_common.reused_adjacency_stream(ctx, 60 if ctx.quick else 600)
    cc.reused_criteria_stream(ctx, 80 if ctx.quick else 800)
    huge_integer_threshold_stream(ctx)
    cc.rounding_tie(ctx, 400 if ctx.quick else 4000, 'c01_rounding')
    rng = ctx.rng('floatthr')
    for arr, t, kind in float_threshold_cases(rng, ctx.quick) + int_threshold_cases(rng, ctx.quick) + bigint_threshold_cases(rng, ctx.quick):
        try:
            fails = float_threshold_oracle(arr, t, kind)
        except Exception as e:
            fails = ['compute raised %r' % (e,)]
        ctx.count('float_threshold/%s' % kind)
        ctx.case_done(None)
        if fails:
            ctx.oracle_failure({'array': [x.item() for x in arr], 'dtype': str(arr.dtype), 'min_value': t,
                                'threshold_kind': kind, 'stream': 'float-threshold'}, fails)


def matches_known(k, case, fails, extra):
    return k['id'] == 'K10' and bool(extra) and extra.get('integer_threshold_rounded_on_float_data') is True and len(fails) == 1


def huge_integer_threshold_stream(ctx):
    """float64 data and an INTEGER min_value beyond 2**53 that is not a double (K10): the threshold is rounded to a double
    before the comparison, so a pixel strictly above it can be left out.  Representable integers must behave exactly."""
    from astrodendro import Dendrogram
    rng = ctx.rng('c01-hugeint')
    for it in range(10 if ctx.quick else 100):
        base = 2 ** rng.choice([53, 54, 60])
        step = base // 2 ** 52                       # spacing of doubles there (2, 4, 256)
        vals = [base + step * rng.randint(1, 9) for _ in range(rng.randint(2, 6))]
        if it == 0:
            base, step, vals = 2 ** 53, 2, [2 ** 53 + 4, 2 ** 53 + 8]
        t = base + step * rng.randint(0, 5) + (rng.choice([1, step - 1]) if (it % 2 == 0) else 0)
        if it == 0:
            t = 2 ** 53 + 3
        mv = t if rng.random() < 0.5 else np.int64(t)
        arr = np.array([float(v) for v in vals])
        info = {'stream': 'integer threshold beyond 2**53 on float64 data', 'data': vals, 'min_value': int(t), 'given_as': type(mv).__name__}
        try:
            d = Dendrogram.compute(arr, min_value=mv)
            lab = d.index_map.ravel().tolist()
            bad = [i for i, v in enumerate(vals) if (v > t) != (lab[i] >= 0)]
        except Exception as e:
            ctx.oracle_failure(info, ['raised %r' % (e,)], {})
            continue
        ctx.count('huge_integer_thresholds')
        ctx.case_done(None, ('hugeint', it))
        if bad:
            exact = float(t) == t
            ctx.oracle_failure(info, ['pixels %s are labelled / unlabelled against the rule "strictly above min_value=%d" (labels %s)' % (bad, t, lab)],
                               {'integer_threshold_rounded_on_float_data': not exact})

