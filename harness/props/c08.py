"""C08 — pruning afterwards equals computing with the stricter parameters.
Known finding K1: false for min_delta on the unchanged tree (post-hoc criterion uses
parent.height).  The check reports K1 and exits 0; any disagreement that is not explained by
K1 (min_npix-only regime, or a case the repaired model variant does not restore) is a VIOLATION."""
import copy
from .. import common, impl, gen, tie, oracles
from ..common import cz, clist, copt, cbool
from . import compute_common as cc
from . import dendro_common as dc
from .c01 import ASSUMPTIONS, TRUSTED

RULE = ('pairs (parameters at compute time) <= (parameters at prune time) on structured random cases incl. ties and larger '
        'arrays: min_npix-only pairs, min_delta-only pairs, both, equal pairs; implementation: hierarchy of '
        'compute(lax).prune(strict) vs compute(strict); Coq: the same comparison on the faithful model (must agree with the '
        'implementation verdict) and on the repaired variant (attach-value criterion); non-trivial = lax dendrogram has >= 3 '
        'structures and the strict parameters remove at least one')
EXPLANATION = ('The property is refuted on the faithful model (C08_refuted) and on /repo: known finding K1. The check '
               'verifies (a) the refutation theorems, (b) that /repo and the faithful model give the same verdict on every '
               'pair, (c) that every disagreement involves min_delta and disappears in the repaired model variant; '
               'anything else is a violation.')
HEADER = tie.HEADER.replace('Compute Corr.', 'Compute Prune PruneGhost Corr.')

WITNESS = {'shape': [3], 'vals': [3, 1, 2], 'scale': 0, 'dtype': 'float64', 'adj': ['grid', [False]], 'minv': 0,
           'crit': []}


def verdict(case, lax, strict, via=None):
    a = copy.deepcopy(case)
    a['delta'], a['npix'] = lax
    b = copy.deepcopy(case)
    b['delta'], b['npix'] = strict
    da = impl.run_compute(a)
    nlax = len(da)
    if via is not None:
        # an intermediate prune with parameters between the two (the final result must not notice), sometimes
        # leaving a parameter to be inherited (0 = keep the recorded value)
        da.prune(**dc.prune_kwargs(case, {'delta': via[0], 'npix': via[1]}))
    da.prune(**dc.prune_kwargs(case, {'delta': strict[0], 'npix': strict[1]}))
    db = impl.run_compute(b)
    shape = tuple(case['shape'])
    ha, hb = impl.impl_hierarchy(da, shape), impl.impl_hierarchy(db, shape)
    # the label maps say the same as the structures: the same pixels are assigned in both, and every label names the
    # structure that owns the pixel
    la, lb = da.index_map.ravel().tolist(), db.index_map.ravel().tolist()
    if [x >= 0 for x in la] != [x >= 0 for x in lb]:
        ha = ha + [('assigned pixels (label map)', tuple(i for i, x in enumerate(la) if x >= 0))]
        hb = hb + [('assigned pixels (label map)', tuple(i for i, x in enumerate(lb) if x >= 0))]
    else:
        for dd, lab, hh in ((da, la, ha), (db, lb, hb)):
            own = {}
            for s_ in dd._structures_dict.values():
                for p_ in oracles.flat_indices(shape, s_.indices(subtree=False)):
                    own[p_] = int(s_.idx)
            wrong = [i for i, x in enumerate(lab) if (x >= 0 and own.get(i) != x) or (x < 0 and i in own)]
            if wrong:
                hh.append(('label map disagrees with the structures at pixels', tuple(wrong)))
    return ha == hb, ha, hb, nlax, len(db)


def rand_pair(rng, case):
    nums, diffs = gen.value_steps(case['vals'])
    mode = rng.choice(['npix', 'npix', 'delta', 'both', 'equal'])
    d0 = n0 = d1 = n1 = 0
    den = 1
    if mode in ('delta', 'both', 'equal') and diffs:
        d1 = max(0, rng.choice(diffs) + rng.choice([-1, 0, 0, 1]))
        d0 = rng.choice([0, 0, rng.randint(0, d1)])
    if mode in ('npix', 'both', 'equal'):
        den = rng.choice([1, 1, 1, 2, 4])            # fractional pixel counts (e.g. 1.5 beams of 1.7 pixels)
        n1 = rng.randint(1, 6 * den)
        n0 = rng.choice([0, 0, rng.randint(0, n1)])
    if mode == 'equal':
        d0, n0 = d1, n1
    return (d0, [n0, den]), (d1, [n1, den])


def infinity_stream(ctx):
    """Saturated (+inf) pixels, min_npix only: pruning afterwards equals computing with the stricter min_npix (an
    infinite plateau measured against its own level passes min_delta=0 in both).  Oracle only."""
    import numpy as np
    from astrodendro import Dendrogram
    rng = ctx.rng('c08-inf')
    for it in range(120 if ctx.quick else 1200):
        shape = rng.choice([(rng.randint(4, 10),), (3, 4), (2, 6)])
        n = int(np.prod(shape))
        vals = [rng.choice([1.0, 2.0, 3.0, 4.0, 0.0, np.inf, np.inf]) for _ in range(n)]
        if not any(np.isfinite(v) and v > 0 for v in vals):
            vals[0] = 1.0
        arr = np.array(vals).reshape(shape)
        n0, n1 = rng.choice([0, 1]), rng.randint(1, 3)
        info = {'stream': 'infinite pixels', 'shape': list(shape), 'data': repr(vals), 'min_npix': [n0, n1]}
        try:
            da = Dendrogram.compute(arr.copy(), min_value=0.5, min_npix=n0)
            da.prune(min_npix=n1)
            db = Dendrogram.compute(arr.copy(), min_value=0.5, min_npix=max(n0, n1))
            ha, hb = impl.impl_hierarchy(da, shape), impl.impl_hierarchy(db, shape)
            fails = [] if ha == hb else ['compute(min_npix=%d).prune(min_npix=%d) %s differs from compute(min_npix=%d) %s' % (n0, n1, ha, max(n0, n1), hb)]
        except Exception as e:
            fails = ['raised %r' % (e,)]
        ctx.count('infinite_pixel_pairs')
        ctx.case_done(None, ('c08-inf', repr(vals), shape, n0, n1))
        if fails:
            ctx.oracle_failure(info, fails, {'repaired_ok': False, 'involves_delta': False})


def explore(ctx):
    infinity_stream(ctx)
    rng = ctx.rng('c08')
    # the witness of the refutation theorem, replayed on the implementation
    eq, ha, hb, _, _ = verdict(WITNESS, (0, [0, 1]), (1, [0, 1]))
    ctx.notes['witness [3,1,2] min_value=0: compute(min_delta=0).prune(min_delta=1) vs compute(min_delta=1)'] = \
        {'equal': eq, 'pruned': ha, 'direct': hb}
    if not eq:
        ctx.oracle_failure({'case': WITNESS, 'lax': [0, [0, 1]], 'strict': [1, [0, 1]], 'witness': True},
                           ['hierarchies differ: pruned %s, direct %s' % (ha, hb)], {'repaired_ok': True, 'involves_delta': True})
    terms, meta = [], []
    n = 1500 if ctx.quick else 15000
    for it in range(n):
        c = dc.tree_rich_case(rng, maxpix=30)
        c['crit'] = []
        c.pop('crit_single', None)
        lax, strict = rand_pair(rng, c)
        via = None
        cascade = it % 10 == 0
        if cascade:
            # a small group next to a big leaf: leaf A, and a branch B(C, D) that is A's sibling; the whole group is
            # smaller than min_npix.  Removing A dissolves B into the common parent, which later loses C and D as well
            # and must then go itself (in the same prune, or in a second one)
            ne = rng.randint(6, 10)
            big = sorted(rng.sample(range(40, 80), ne), reverse=True)
            a_ = [rng.randint(8, 20) for _ in range(rng.randint(1, 2))]
            c_ = [rng.randint(21, 30) for _ in range(rng.randint(1, 2))]
            d_ = [rng.randint(8, 20) for _ in range(rng.randint(1, 2))]
            vals = big + [1] + a_ + [rng.randint(2, 4)] + c_ + [rng.randint(5, 7)] + d_
            if rng.random() < 0.5:
                vals = vals[::-1]
            # distinct values (the order of equal pixels is not the point here)
            seen = set()
            vals = [v if not (v in seen or seen.add(v)) else None for v in vals]
            if any(v is None for v in vals):
                cascade = False
            else:
                group = len(a_) + len(c_) + len(d_) + 2
                c = {'shape': [len(vals)], 'vals': vals, 'dtype': 'float64', 'scale': 0, 'minv': None, 'delta': 0, 'npix': [0, 1],
                     'adj': ['grid', [False]], 'crit': []}
                lax, strict = (0, [0, 1]), (0, [rng.randint(group, min(ne, group + 2)) if ne >= group else group, 1])
                via = (0, [2, 1]) if rng.random() < 0.5 else None
                ctx.count('cascade_cases')
        if not cascade and rng.random() < 0.3 and strict[1][1] == lax[1][1] and strict[0] == 0 and lax[0] == 0:
            # min_npix only (where the implementation does satisfy the property): the model has no intermediate
            # prune, so these cases are decided by the oracle alone
            den = strict[1][1]
            via = (0, [rng.choice([0, lax[1][0], rng.randint(lax[1][0], strict[1][0])]), den])
        try:
            eq, ha, hb, nlax, nstrict = verdict(c, lax, strict, via)
            if via is not None:
                ctx.count('with_intermediate_prune')
        except Exception as e:
            ctx.oracle_failure({'case': c, 'lax': lax, 'strict': strict}, ['raised %r' % (e,)], {})
            continue
        ctx.count('pair=%s' % ('npix-only' if strict[0] == 0 else ('delta-only' if strict[1][0] == 0 else 'both')))
        ctx.count('impl_equal=%s' % eq)
        key = (tuple(c['vals']), tuple(c['shape']), str(lax), str(strict)) if (nlax >= 3 and nstrict < nlax) else None
        ctx.case_done(c, key, sample={'case': c, 'lax': lax, 'strict': strict, 'equal': eq} if key else None)
        if via is not None:
            if not eq:
                ctx.oracle_failure({'case': c, 'lax': lax, 'via': via, 'strict': strict},
                                   ['compute(lax).prune(via).prune(strict) %s differs from compute(strict) %s (min_npix only)' % (ha, hb)],
                                   {'repaired_ok': False, 'involves_delta': False})
            continue
        terms.append('(%s, %s, %s, %s, %s, (%s, %s), %s, (%s, %s), %s)' % (
            clist(c['shape']), tie.coq_adj(c), clist(c['vals'], copt), copt(c.get('minv')),
            cz(lax[0]), cz(lax[1][0]), cz(lax[1][1]), cz(strict[0]), cz(strict[1][0]), cz(strict[1][1]), cbool(eq)))
        meta.append((c, lax, strict, eq, ha, hb))
    mism, errs = common.run_coq_shards('c08_tie', HEADER, terms, 'mismatches c08_ok', shard=150, ctype='c08_case')
    ctx.errors.extend(errs)
    for i in mism[:5]:
        c, lax, strict, eq, ha, hb = meta[i]
        ctx.tie_mismatch('C08 verdict (faithful model vs implementation)', {'case': c, 'lax': lax, 'strict': strict},
                         {'equal': eq, 'pruned': ha, 'direct': hb}, None)
    bad, errs2 = common.run_coq_shards('c08_rep', HEADER, terms, 'mismatches c08_repaired_ok', shard=150, ctype='c08_case')
    ctx.errors.extend(errs2)
    bad = set(bad)
    ctx.notes['repaired_variant_disagreements'] = len(bad)
    for i, (c, lax, strict, eq, ha, hb) in enumerate(meta):
        if not eq:
            ctx.oracle_failure({'case': c, 'lax': lax, 'strict': strict},
                               ['hierarchy of compute(lax).prune(strict) %s differs from compute(strict) %s' % (ha, hb)],
                               {'repaired_ok': i not in bad, 'involves_delta': strict[0] != 0})
        elif i in bad:
            ctx.oracle_failure({'case': c, 'lax': lax, 'strict': strict, 'note': 'implementation agrees, repaired model variant does not'},
                               ['repaired model variant breaks an equivalence that holds on the implementation'], {'repaired_ok': False, 'involves_delta': strict[0] != 0})


def matches_known(k, case, fails, extra):
    if k['id'] != 'K1':
        return False
    return bool(extra) and extra.get('involves_delta') and extra.get('repaired_ok') and 'note' not in case


def replay(path):
    import json
    r = json.load(open(path))
    print(json.dumps(r, indent=1)[:3000])
    case = r.get('case') or {}
    if 'case' in case:
        eq, ha, hb, _, _ = verdict(case['case'], tuple(case['lax']), tuple(case['strict']))
        print('equal:', eq, 'pruned:', ha, 'direct:', hb)
        return 0 if eq else 1
    return 1
