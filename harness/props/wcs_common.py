"""World coordinate systems for the centroid checks of C11 / C12: rotated linear, celestial TAN, TAN with SIP
distortion.  The expected world position of a pixel position is computed here without astrodendro: by the
textbook linear formula for the linear systems, by astropy's complete transformation (all_pix2world) otherwise."""
import math
import numpy as np
from astropy.wcs import WCS, Sip


def rotated_linear(rng, naxis=2):
    w = WCS(naxis=naxis)
    w.wcs.crpix = [rng.randint(1, 5) for _ in range(naxis)]
    w.wcs.cdelt = [rng.choice([0.5, 2.0, -1.0, 0.25]) for _ in range(naxis)]
    w.wcs.crval = [rng.randint(0, 30) for _ in range(naxis)]
    th = math.radians(rng.choice([30, 45, 90, 120, -60, 17]))
    pc = np.eye(naxis)
    pc[0, 0], pc[0, 1], pc[1, 0], pc[1, 1] = math.cos(th), -math.sin(th), math.sin(th), math.cos(th)
    if naxis == 3 and rng.random() < 0.5:
        pc[2, 0] = rng.choice([0.1, -0.2])          # velocity gradient across the map
    w.wcs.pc = pc
    w.wcs.set()

    def expect(xyz):                                 # xyz: 0-based pixel position in FITS axis order
        p = np.asarray(xyz, dtype=float) + 1 - np.asarray(w.wcs.crpix)
        return np.asarray(w.wcs.crval) + np.asarray(w.wcs.cdelt) * (pc @ p)
    return w, expect, 'linear axes rotated by %.0f deg (PC matrix)' % math.degrees(th)


def celestial(rng, sip):
    w = WCS(naxis=2)
    w.wcs.ctype = ['RA---TAN-SIP', 'DEC--TAN-SIP'] if sip else ['RA---TAN', 'DEC--TAN']
    w.wcs.crpix = [rng.randint(1, 6), rng.randint(1, 6)]
    w.wcs.cdelt = [-rng.choice([0.01, 0.05]), rng.choice([0.01, 0.05])]
    w.wcs.crval = [rng.randint(10, 300), rng.randint(-60, 60)]
    if sip:
        a = np.zeros((3, 3))
        b = np.zeros((3, 3))
        a[2, 0], a[0, 2], a[1, 1] = rng.choice([0.02, -0.03]), rng.choice([0.01, 0.02]), 0.015
        b[2, 0], b[0, 2], b[1, 1] = rng.choice([0.01, -0.02]), rng.choice([0.03, -0.01]), -0.02
        w.sip = Sip(a, b, np.zeros((3, 3)), np.zeros((3, 3)), w.wcs.crpix)
    w.wcs.set()

    def expect(xyz):
        return w.all_pix2world([list(xyz)], 0).ravel()
    return w, expect, 'gnomonic projection' + (' with SIP distortion' if sip else '')


def centroid(s):
    """Intensity-weighted mean pixel position of a structure (with substructures), array axis order."""
    v = np.asarray(s.values(subtree=True), dtype=float)
    return [float((np.asarray(a, dtype=float) * v).sum() / v.sum()) for a in s.indices(subtree=True)]
