"""C19 — viewer selections always denote the structure that was picked."""
import types, warnings, re
import numpy as np
from astropy import units as u
from .. import common, impl, gen, tie, oracles
from ..common import cz, clist, copt, cbool
from . import dendro_common as dc
from .c01 import TRUSTED
from astrodendro import Dendrogram
from astrodendro.analysis import pp_catalog, ppv_catalog

RULE = ('the real BasicDendrogramViewer and Scatter driven headlessly (Agg) by random sequences (up to 30) of synthetic '
        'events - clicks on image pixels incl. half-pixel positions and empty pixels, line picks (single and overlapping '
        'indices), lassos in the linked scatter plot (also empty), slice changes - on 2-D (non-square) and 3-D dendrograms, '
        'computed and pruned (id gaps), all three mouse buttons; after every event: hub selections, .structures of the '
        'highlighted line collections, the mask handed to Axes.contour per slot, label texts, highlighted scatter points, '
        'callback counts; compared with the statement of C19 and, at the end, with the Coq state machine; non-trivial = '
        'history with selections in at least two slots')
EXPLANATION = ('Theorems in props/C19.v (click target = owner of the pixel in the displayed slice; every event history keeps '
               'every slot consistent with its own selection; each view notified once) + tie of the final artifacts with '
               'Viewer.run + oracle after every event')
ASSUMPTIONS = ['which line / point is under the cursor (matplotlib picking, Path.contains_points), Qt, sliders, colour limits, WCS axes are outside the model: events arrive resolved',
               'lasso polygons are axis-aligned rectangles whose edges avoid data points']
HEADER = tie.HEADER.replace('Compute Corr.', 'Compute Viewer Corr.')


def make_viewer(d):
    import matplotlib.pyplot as plt
    v = d.viewer()
    real = v.ax_image.contour

    def rec(mask, **kw):
        cs = real(mask, **kw)
        cs._verif_mask = np.array(mask, copy=True)
        return cs
    v.ax_image.contour = rec
    v.fig.canvas.draw = lambda *a, **k: None        # rendering is not part of the property
    v.fig.canvas.draw_idle = lambda *a, **k: None
    return v


def canvas():
    return types.SimpleNamespace(toolbar=types.SimpleNamespace(mode=''), draw=lambda: None, draw_idle=lambda: None)


def observe(v, scs, d, counts):
    out = {}
    for slot in (1, 2, 3):
        sel = v.hub.selections.get(slot)
        lines = v.selected_lines.get(slot)
        cont = v.selected_contour.get(slot)
        o = {'selection': None if sel is None else [None if s is None else int(s.idx) for s in sel],
             'subtree': v.hub.select_subtree.get(slot),
             'lines': None if lines is None else [int(s.idx) for s in lines.structures],
             'contour': None if cont is None else cont._verif_mask,
             'label': v.selected_label[slot].get_text(),
             'scatter': []}
        for sc in scs:
            l2 = sc.lines2d.get(slot)
            o['scatter'].append(None if l2 is None else sorted(zip([float(x) for x in l2.get_xdata()], [float(y) for y in l2.get_ydata()])))
        out[slot] = o
    out['slice'] = v.slice
    out['counts'] = list(counts)
    return out


def expected_lines(structs, subtree):
    s0 = structs[0]
    return [int(x.idx) for x in s0.descendants] + [int(s0.idx)] if subtree else [int(s.idx) for s in structs]


def check(v, scs, d, cat, obs, sel_model, fails, nselects):
    """The statement of C19 on the current state; sel_model: slot -> (ids, subtree) or None."""
    xcol, ycol = 'x_cen', 'y_cen'
    rows = {int(i): (float(cat[xcol][k]), float(cat[ycol][k])) for k, i in enumerate(cat['_idx'])}
    # "the displayed slice": the image on screen is the plane the viewer says it shows (clicks are resolved in it)
    shown = np.asarray(v.image.get_array())
    plane = d.data if d.data.ndim == 2 else d.data[obs['slice'], :, :]
    if shown.shape != plane.shape or not np.array_equal(np.asarray(shown, dtype=float), np.asarray(plane, dtype=float), equal_nan=True):
        fails.append('the image on screen is not plane %r of the data' % (obs['slice'],))
    for slot in (1, 2, 3):
        o = obs[slot]
        m = sel_model.get(slot, 'untouched')
        if m == 'untouched':
            if o['selection'] is not None or o['lines'] is not None or o['contour'] is not None or any(x is not None for x in o['scatter']):
                fails.append('slot %d shows something although nothing was ever selected in it' % slot)
            continue
        if m is None:
            if o['selection'] != [None] or o['lines'] is not None or o['contour'] is not None or o['label'] != 'No structure selected' \
                    or any(x is not None for x in o['scatter']):
                fails.append('slot %d is cleared but still shows: %s' % (slot, {k: (v_ if k != 'contour' else (v_ is not None)) for k, v_ in o.items()}))
            continue
        ids, subtree = m
        structs = [d[i] for i in ids]
        if o['selection'] != ids or o['subtree'] != subtree:
            fails.append('slot %d holds %s (subtree=%s), expected %s (subtree=%s)' % (slot, o['selection'], o['subtree'], ids, subtree))
            continue
        want_lines = expected_lines(structs, subtree)
        if o['lines'] is None or sorted(set(o['lines'])) != sorted(set(want_lines)):
            fails.append('slot %d highlights the lines of %s, expected %s' % (slot, o['lines'], want_lines))
        mask = structs[0].get_mask(subtree=True) if subtree else sum(s.get_mask(subtree=True) for s in structs)
        if d.data.ndim == 3:
            mask = mask[obs['slice'], :, :]
        if o['contour'] is None or o['contour'].shape != mask.shape or not (np.asarray(o['contour'] > 0) == np.asarray(mask > 0)).all():
            fails.append('slot %d contour does not outline the mask of %s in the displayed slice %s' % (slot, ids, obs['slice']))
        nums = [int(x) for x in re.findall(r'\d+', o['label'])]
        if nums != ids[:3] or (len(ids) > 3) != o['label'].endswith('...'):
            fails.append('slot %d label %r does not name %s' % (slot, o['label'], ids[:3]))
        want_pts = sorted(rows[i] for i in want_lines if i in rows)
        for k, pts in enumerate(o['scatter']):
            if pts is None or len(pts) != len(want_pts) or any(abs(a[0] - b[0]) > 1e-9 or abs(a[1] - b[1]) > 1e-9 for a, b in zip(pts, want_pts)):
                fails.append('slot %d: scatter view %d highlights %s, catalog rows of %s are %s' % (slot, k, pts, want_lines, want_pts))
    for k, cnt in enumerate(obs['counts']):
        if cnt != nselects:
            fails.append('view %d was notified %d times for %d selections' % (k, cnt, nselects))


def explore(ctx):
    import matplotlib
    matplotlib.use('Agg')
    import matplotlib.pyplot as plt
    warnings.simplefilter('ignore')
    rng = ctx.rng('c19')
    terms, expect = [], []
    n = 45 if ctx.quick else 600
    for it in range(n):
        three_d = rng.random() < 0.45
        shape = [rng.randint(2, 4), rng.randint(3, 5), rng.randint(4, 7)] if three_d else [rng.randint(3, 5), rng.randint(5, 8)]
        npx = gen.nprod(shape)
        vals = list(range(1, npx + 1))
        rng.shuffle(vals)
        c = {'shape': shape, 'vals': vals, 'scale': 0, 'dtype': 'float64', 'adj': ['grid', [False] * len(shape)],
             'minv': rng.choice([npx // 3, npx // 2]), 'delta': 0, 'npix': [0, 1], 'crit': []}
        info = {'case': c}
        fails = []
        try:
            d = impl.run_compute(c)
            if rng.random() < 0.5:
                d.prune(**dc.prune_kwargs(c, {'delta': rng.randint(1, 4), 'npix': [rng.randint(0, 2), 1]}))
                info['pruned'] = True
            if len(d) == 0:
                continue
            cat = (ppv_catalog if three_d else pp_catalog)(d, {'data_unit': u.Jy}, fields=['x_cen', 'y_cen'], verbose=False)
            if len(d) >= 3 and rng.random() < 0.25:
                # a catalog of some of the structures only (the leaves, or a random subset): structures without a row
                # can be selected by clicks and picks, and simply have no point to highlight
                subset = list(d.leaves) if rng.random() < 0.5 else rng.sample(list(d._structures_dict.values()), max(1, len(d) // 2))
                cat = (ppv_catalog if three_d else pp_catalog)(subset, {'data_unit': u.Jy}, fields=['x_cen', 'y_cen'], verbose=False)
                info['subset_catalog'] = sorted(int(s.idx) for s in subset)
            if len(cat) >= 3 and rng.random() < 0.35:
                # a catalog column may hold NaN (a statistic that is undefined for some structures): such rows can
                # never be lassoed, and the rows after them still belong to their own structures
                for r_ in rng.sample(range(len(cat)), rng.randint(1, max(1, len(cat) // 3))):
                    cat[rng.choice(['x_cen', 'y_cen'])][r_] = np.nan
                info['nan_rows'] = True
            if len(cat) >= 2 and rng.random() < 0.3:
                # a catalog the user re-ordered (sorted by a column, or reversed): rows still name their structures
                if rng.random() < 0.5:
                    cat = cat[::-1]
                else:
                    cat.sort('x_cen')
                info['catalog_reordered'] = [int(x) for x in cat['_idx']]
            v = make_viewer(d)
            # the i-th drawn segment is a segment of the i-th listed structure (a pick event carries i): the vertical
            # one at the structure's position from its base to its height - also when that is a single point -, the
            # horizontal one at its height
            segs = [np.asarray(sg, dtype=float) for sg in v.lines.get_segments()]
            pos = v.plotter._cached_positions       # sorted with reverse=True by the viewer; the layout itself is C18's business
            if len(segs) != len(v.lines.structures):
                fails.append('%d segments drawn for %d listed structures' % (len(segs), len(v.lines.structures)))
            else:
                nflat = 0
                for i_, (sg, s_) in enumerate(zip(segs, v.lines.structures)):
                    bot = float(s_.parent.height) if s_.parent is not None else float(s_.vmin)
                    top = float(s_.height)
                    nflat += top == bot
                    vert = sg.shape == (2, 2) and sg[0][0] == sg[1][0] == pos[s_] and sorted([sg[0][1], sg[1][1]]) == [bot, top]
                    horiz = s_.is_branch and sg.shape == (2, 2) and sg[0][1] == sg[1][1] == top
                    if not (vert or horiz):
                        fails.append('segment %d %s is not a segment of structure %d listed at that index (position %r, base %r, height %r)'
                                     % (i_, sg.tolist(), s_.idx, float(pos[s_]), bot, top))
                        break
                ctx.count('flat_structures_drawn', nflat)
            from astrodendro.scatter import Scatter
            scs = [Scatter(d, v.hub, cat, 'x_cen', 'y_cen') for _ in range(rng.choice([1, 1, 2]))]
            for sc_ in scs:
                sc_.fig.canvas.draw = lambda *a, **k: None
                sc_.fig.canvas.draw_idle = lambda *a, **k: None
            counts = [0] * len(v.hub._callbacks)
            for k, cb in enumerate(list(v.hub._callbacks)):
                def wrap(slot, cb=cb, k=k):
                    counts[k] += 1
                    return cb(slot)
                v.hub._callbacks[k] = wrap
        except Exception as e:
            ctx.oracle_failure(info, ['building the viewer raised %r' % (e,)])
            plt.close('all')
            continue
        ny, nx = shape[-2], shape[-1]
        sel_model, events, coq_events = {}, [], []
        slice0 = v.slice
        nselects = 0
        forced = None
        try:
            for step in range(rng.randint(4, 30)):
                kind = rng.choice(['click', 'click', 'click', 'pick', 'lasso', 'lasso-one', 'slice'] if three_d else ['click', 'click', 'click', 'pick', 'lasso', 'lasso-one'])
                b = rng.choice([1, 2, 3])
                if forced is not None:
                    kind, b = 'click', forced[0]
                if kind == 'click':
                    if forced is not None:
                        x, y = forced[1], forced[2]
                        forced = None
                    elif rng.random() < 0.3:
                        x = rng.randint(0, nx - 1) + rng.choice([-0.5, 0.5, 0.49, -0.49])
                        y = rng.randint(0, ny - 1) + rng.choice([-0.5, 0.5, 0.49, -0.49])
                        x, y = min(max(x, -0.5), nx - 0.5001), min(max(y, -0.5), ny - 0.5001)
                    else:
                        x, y = rng.uniform(-0.5, nx - 0.5001), rng.uniform(-0.5, ny - 0.5001)
                    ev = types.SimpleNamespace(canvas=canvas(), button=b, inaxes=v.ax_image, xdata=x, ydata=y)
                    v.select_from_map(ev)
                    ix, iy = int(round(x)), int(round(y))
                    lab = int(d.index_map[(v.slice, iy, ix) if three_d else (iy, ix)])
                    sel_model[b] = ([lab], True) if lab >= 0 else None
                    nselects += 1
                    events.append(['click', b, x, y])
                    coq_events.append('Click %d %s' % (b, copt(lab if lab >= 0 else None)))
                elif kind == 'pick':
                    nlines = len(v.lines.structures)
                    inds = [rng.randrange(nlines)] if rng.random() < 0.7 else rng.sample(range(nlines), min(nlines, rng.randint(2, 3)))
                    ev = types.SimpleNamespace(canvas=canvas(), mouseevent=types.SimpleNamespace(button=b), artist=v.lines, ind=np.array(inds))
                    v.line_picker(ev)
                    peaks = [v.lines.structures[i].get_peak(subtree=True)[1] for i in inds]
                    target = v.lines.structures[inds[int(np.argmax(peaks))]]
                    if len(inds) == 1 and target is not v.lines.structures[inds[0]]:
                        fails.append('picked line %d was drawn for another structure' % inds[0])
                    sel_model[b] = ([int(target.idx)], True)
                    nselects += 1
                    pk = int(target.get_peak(subtree=True)[0][0]) if (three_d and v.slice_slider is not None) else None
                    events.append(['pick', b, inds])
                    coq_events.append('PickLine %d %s %s' % (b, cz(target.idx), copt(pk)))
                elif kind in ('lasso', 'lasso-one'):
                    sc = rng.choice(scs)
                    xs, ys = np.asarray(cat['x_cen'], dtype=float), np.asarray(cat['y_cen'], dtype=float)
                    one = None
                    if kind == 'lasso-one':
                        # a lasso drawn tightly around the catalog point of one branch; the next event is a click on one of
                        # that branch's own pixels with the same button (the same structure, now with its subtree)
                        rows = [k_ for k_, i_ in enumerate(cat['_idx']) if d[int(i_)].children and xs[k_] == xs[k_] and ys[k_] == ys[k_]]
                        if rows:
                            one = rng.choice(rows)
                    x0, x1 = sorted([rng.uniform(np.nanmin(xs) - 1, np.nanmax(xs) + 1) + 0.01379, rng.uniform(np.nanmin(xs) - 1, np.nanmax(xs) + 1) + 0.01379])
                    y0, y1 = sorted([rng.uniform(np.nanmin(ys) - 1, np.nanmax(ys) + 1) + 0.01379, rng.uniform(np.nanmin(ys) - 1, np.nanmax(ys) + 1) + 0.01379])
                    if one is not None:
                        x0, x1, y0, y1 = xs[one] - 1e-4, xs[one] + 1e-4, ys[one] - 1e-4, ys[one] + 1e-4
                        lab_map = d.index_map[v.slice] if three_d else d.index_map
                        own = np.argwhere(np.asarray(lab_map) == int(cat['_idx'][one]))
                        if len(own):
                            iy_, ix_ = own[rng.randrange(len(own))]
                            forced = (b, float(ix_), float(iy_))
                    verts = [(x0, y0), (x1, y0), (x1, y1), (x0, y1), (x0, y0)]
                    if rng.random() < 0.6:
                        # as the mouse delivers it: the polygon is closed implicitly, from the release point back to the start
                        verts = verts[:4]
                        k_ = rng.randrange(4)
                        verts = verts[k_:] + verts[:k_]
                    sc.lasso = object()
                    sc.callback_generator(types.SimpleNamespace(button=b))(verts)
                    inside = [int(i) for k, i in enumerate(cat['_idx']) if x0 < xs[k] < x1 and y0 < ys[k] < y1]
                    sel_model[b] = (inside, False) if inside else None
                    nselects += 1
                    events.append(['lasso', b, [x0, x1, y0, y1]])
                    coq_events.append('Lasso %d %s' % (b, clist(inside)))
                else:
                    k = rng.randint(0, shape[0] - 1)
                    if v.slice_slider is not None and rng.random() < 0.25:
                        # the two ends of the slider: every position it can take must be a plane of the cube
                        posn = rng.choice([v.slice_slider.valmin, v.slice_slider.valmax])
                        v.update_slice(pos=posn)
                        k = int(v.slice)
                        if not 0 <= k < shape[0]:
                            fails.append('slider position %r shows plane %r of a cube with %d planes' % (posn, k, shape[0]))
                    else:
                        v.update_slice(pos=k + rng.choice([0, 0.2, -0.3]))
                    events.append(['slice', k])
                    coq_events.append('SetSlice %s' % cz(k))
                obs = observe(v, scs, d, counts)
                check(v, scs, d, cat, obs, sel_model, fails, nselects)
                if fails:
                    break
        except Exception as e:
            import traceback
            fails.append('event %s raised %r' % (events[-1] if events else None, e))
        info['events'] = events
        ctx.count('dim=%d' % len(shape))
        key = (tuple(vals), tuple(shape), str(events)) if len(sel_model) >= 2 else None
        ctx.case_done(c, key, sample={'shape': shape, 'events': events} if key else None)
        if fails:
            ctx.oracle_failure(info, fails[:5])
            plt.close('all')
            continue
        # final artifacts for the Coq state machine
        try:
            obs = observe(v, scs, d, counts)
            exp = []
            for slot in (1, 2, 3):
                o = obs[slot]
                m = sel_model.get(slot, 'untouched')
                if m in ('untouched', None):
                    exp.append(None)
                else:
                    ids, subtree = m
                    dd = []
                    for x_ in o['lines']:
                        if not dd or dd[-1] != x_:
                            dd.append(x_)
                    exp.append({'lines': dd, 'label': ids[:3]})
            terms.append('viewer_view %s %s %s [%s]' % (tie.coq_forest(d, c), clist(list(range(len(counts)))), cz(slice0 if slice0 is not None else 0), '; '.join(coq_events)))
            expect.append((info, exp, obs['slice'] if obs['slice'] is not None else 0, sum(counts), sel_model))
        except Exception as e:
            ctx.oracle_failure(info, ['cannot emit the model case: %r' % (e,)])
        plt.close('all')
    vals_, errs = common.coq_dump_many('c19_viewer', HEADER, terms, batch=25)
    ctx.errors.extend(errs)
    for (info, exp, sl, ncalls, sel_model), out in zip(expect, vals_):
        if out is None:
            continue
        try:
            arts, (mslice, mnotif) = out
            ok = (mnotif == ncalls)
            twod = len(info['case']['shape']) == 2
            if not twod:
                ok = ok and mslice == sl
            for slot, a, e in zip((1, 2, 3), arts, exp):
                fl, lines, (fc, (cids, ck), (fb, lab, (fs, rows))) = a[0], a[1], a[2]
                if e is None:
                    ok = ok and fl == 0 and fc == 0 and fb == 0 and fs == 0
                else:
                    m = sel_model[slot]
                    ok = ok and fl == 1 and list(lines) == e['lines'] and fb == 1 and list(lab) == e['label'] and fs == 1 \
                        and sorted(rows) == sorted(set(e['lines'])) and fc == 1 and list(cids) == (m[0][:1] if m[1] else m[0])
        except Exception as ex:
            ok = False
        if not ok:
            ctx.tie_mismatch('viewer state machine (Viewer.run)', info, {'expected': exp, 'slice': sl, 'notifications': ncalls}, str(out)[:600])


def matches_known(k, case, fails, extra):
    return False


def replay(path):
    import json
    r = json.load(open(path))
    print(json.dumps(r, indent=1)[:4000])
    return 1
