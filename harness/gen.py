"""Structured generators for compute cases (shared by most properties)."""
import itertools, math

SHAPES_SMALL = [[n] for n in range(1, 10)] + [[a, b] for a in range(1, 5) for b in range(1, 5)] + \
    [[a, b, c] for a in range(1, 4) for b in range(1, 4) for c in range(1, 4)] + \
    [[2, 2, 2, 2], [1, 2, 1, 3], [2, 1, 2, 2], [3, 2, 1, 2]]


def nprod(shape):
    n = 1
    for s in shape:
        n *= s
    return n


def rand_shape(rng, maxpix=36):
    while True:
        nd = rng.choice([1, 1, 2, 2, 2, 3, 3, 4])
        if nd == 1:
            shape = [rng.choice([1, 2, 3, 5, 8, 12, 20, 30])]
        else:
            shape = [rng.randint(1, 6 if nd == 2 else (4 if nd == 3 else 3)) for _ in range(nd)]
        if 1 <= nprod(shape) <= maxpix:
            return shape


def rand_vals(rng, n):
    kind = rng.choice(['alpha', 'alpha', 'perm', 'perm', 'ridge', 'wide', 'neg'])
    if kind == 'alpha':
        k = rng.randint(2, 5)
        vals = [rng.randint(1, k) for _ in range(n)]
    elif kind == 'perm':
        vals = list(range(1, n + 1))
        rng.shuffle(vals)
    elif kind == 'ridge':
        # alternating high / low with a slope: deep chains and many meetings
        vals = [(i % 2) * (n + 2) + (i // 2 if rng.random() < 0.8 else rng.randint(0, n)) + 1 for i in range(n)]
        if rng.random() < 0.5:
            vals.reverse()
    elif kind == 'wide':
        vals = [rng.randint(0, 40) for _ in range(n)]
    else:
        vals = [rng.randint(-8, 8) for _ in range(n)]
    # NaN holes
    if rng.random() < 0.3:
        keep = rng.randrange(n)          # all-NaN input is rejected by compute (malformed stream)
        vals = [None if (rng.random() < 0.15 and i != keep) else v for i, v in enumerate(vals)]
    return vals


def value_steps(vals):
    nums = sorted(set(v for v in vals if v is not None))
    diffs = sorted(set(b - a for a in nums for b in nums if b > a))
    return nums, diffs


def rand_params(rng, case, allow_user=True):
    """min_value / min_delta / min_npix / user criteria, with many values exactly at,
    just below and just above the quantities they are compared with."""
    vals = case['vals']
    nums, diffs = value_steps(vals)
    k = case.get('scale', 0)
    unit = 1
    # threshold
    r = rng.random()
    if r < 0.35 or not nums:
        case['minv'] = None
    else:
        base = rng.choice(nums)
        case['minv'] = base + rng.choice([-unit, 0, 0, unit]) if k == 0 else base * 1 + rng.choice([-1, 0, 1])
    # min_delta
    r = rng.random()
    if r < 0.3 or not diffs:
        case['delta'] = 0
    else:
        case['delta'] = max(0, rng.choice(diffs) + rng.choice([-1, 0, 0, 1]))
    # min_npix
    r = rng.random()
    if r < 0.4:
        case['npix'] = [0, 1]
    elif r < 0.85:
        case['npix'] = [rng.randint(1, 5), 1]
    else:
        case['npix'] = [rng.randint(1, 9), 2]
    crit = []
    if allow_user and rng.random() < 0.3 and nums:
        for _ in range(rng.choice([1, 1, 2])):
            c = rng.choice(['peak', 'sum', 'seeds'])
            if c == 'peak':
                crit.append(['peak', rng.choice(nums) + rng.choice([-1, 0, 1])])
            elif c == 'sum':
                crit.append(['sum', rng.choice(nums) * rng.randint(1, 3) + rng.choice([-1, 0, 1])])
            else:
                n = nprod(case['shape'])
                crit.append(['seeds', sorted(rng.sample(range(n), rng.randint(1, min(3, n))))])
    case['crit'] = crit
    if len(crit) == 1 and rng.random() < 0.5:
        case['crit_single'] = True
    return case


def rand_adj(rng, shape):
    r = rng.random()
    if r < 0.55:
        return ['grid', [False] * len(shape)]
    if r < 0.85:
        per = [rng.random() < 0.5 for _ in shape]
        if not any(per):
            per[rng.randrange(len(shape))] = True
        return ['grid', per]
    if r < 0.93:
        return ['diag']
    n = nprod(shape)
    return ['cut', sorted(rng.sample(range(n), rng.randint(1, max(1, min(3, n // 3)))))]


def rand_case(rng, maxpix=36, dtype=None, allow_user=True, adj=None, scale=None):
    shape = rand_shape(rng, maxpix)
    n = nprod(shape)
    case = {'shape': shape, 'vals': rand_vals(rng, n)}
    case['scale'] = scale if scale is not None else rng.choice([0, 0, 0, 1, 3])
    case['dtype'] = dtype or 'float64'
    case['adj'] = adj or rand_adj(rng, shape)
    if dtype is None and case['scale'] == 0 and all(v is not None for v in case['vals']) and rng.random() < 0.35:
        # integer / narrow dtypes, with the data minimum on the dtype's lower bound half of the time
        dt = rng.choice(['int8', 'int16', 'int32', 'int64', 'uint8', 'uint16', 'uint32', 'float32'])
        lo = {'int8': -128, 'int16': -32768, 'int32': -2 ** 31, 'int64': -2 ** 63, 'uint8': 0, 'uint16': 0, 'uint32': 0,
              'float32': None}[dt]
        mn = min(case['vals'])
        if lo is not None and (rng.random() < 0.5 or (lo == 0 and mn < 0)):
            case['vals'] = [v - mn + lo for v in case['vals']]
        if dt == 'int8' and max(case['vals']) > 127:
            dt = 'int16'
        hi = {'int8': 127, 'int16': 32767, 'int32': 2 ** 31 - 1, 'int64': 2 ** 63 - 1, 'uint8': 255, 'uint16': 65535,
              'uint32': 2 ** 32 - 1}.get(dt)
        if hi is not None and rng.random() < 0.3:
            # spread the values over (almost) the whole range of the type: differences of two pixel values then do
            # not fit the type itself
            mn, mx = min(case['vals']), max(case['vals'])
            if mx > mn:
                k = (hi - lo) // (mx - mn)
                case['vals'] = [lo + (v - mn) * k for v in case['vals']]
        case['dtype'] = dt
    if case['adj'][0] == 'grid' and any(case['adj'][1]) and rng.random() < 0.25:
        case['per_negative'] = True          # periodic_neighbours(-1), periodic_neighbours([-2, -1])
    if rng.random() < 0.3:
        # what a user gets from arr.T, np.asfortranarray, a strided slice or a read-only buffer
        case['layout'] = rng.choice(['F', 'T', 'strided', 'readonly'])
    rand_params(rng, case, allow_user)
    if case['dtype'] not in ('float64', 'float32') and case.get('minv') is not None and abs(case['minv']) < 2 ** 40 and rng.random() < 0.4:
        case['minv_frac'] = True
    if case['dtype'] in ('int32', 'int64', 'uint32') and case.get('crit'):
        # sums of values near the bounds of wide integer types overflow in np.nansum: out of scope
        case['crit'] = [c for c in case['crit'] if c[0] != 'sum']
    if case['adj'][0] == 'grid' and sum(case['adj'][1]) == 1 and rng.random() < 0.5:
        case['per_scalar'] = True
    return case


def all_orderings(shape, limit=None):
    """Every assignment of distinct values 1..n to the pixels of `shape`."""
    n = nprod(shape)
    for i, perm in enumerate(itertools.permutations(range(1, n + 1))):
        if limit is not None and i >= limit:
            return
        yield list(perm)


def all_alphabet(shape, k):
    n = nprod(shape)
    for tup in itertools.product(range(1, k + 1), repeat=n):
        yield list(tup)


def shapes_with(n):
    """All 1-3 D shapes with exactly n cells."""
    out = [[n]]
    for a in range(1, n + 1):
        if n % a == 0:
            b = n // a
            if a > 1 and b > 1:
                out.append([a, b])
            for c in range(2, b + 1):
                if b % c == 0 and a > 1 and b // c > 1:
                    out.append([a, c, b // c])
    return out
