"""The compute tie: the implementation's observables vs the Coq model (Compute.v)
on the same inputs, evaluated by vm_compute inside coqc."""
import numpy as np
from . import common
from .common import cz, clist, copt, cbool
from . import impl

HEADER = """From Coq Require Import ZArith List Bool.
From Dendro Require Import Base Tree Grid Criteria Compute Corr.
Import ListNotations.
Open Scope Z_scope.
"""


def coq_crit(case):
    """The criteria list as compute assembles it: [min_delta; min_npix] ++ user."""
    num, den = case.get('npix', [0, 1])
    cs = ['MinDelta %s' % cz(case.get('delta', 0)), 'MinNpix %s %s' % (cz(num), cz(den))]
    for c in case.get('crit', []):
        cs.append(coq_one_crit(c))
    return '[' + '; '.join(cs) + ']'


def coq_one_crit(c):
    if c[0] == 'peak':
        return 'MinPeak %s' % cz(c[1])
    if c[0] == 'sum':
        return 'MinSum %s' % cz(c[1])
    if c[0] == 'seeds':
        return 'Seeds %s' % clist(c[1])
    if c[0] == 'delta':
        return 'MinDelta %s' % cz(c[1])
    if c[0] == 'npix':
        return 'MinNpix %s %s' % (cz(c[1]), cz(c[2]))
    raise ValueError(c)


def coq_adj(case):
    a = case['adj']
    if a[0] == 'grid':
        return '(AdjGrid %s)' % clist(a[1], cbool)
    table = case.get('adj_table')
    if table is None:
        table = impl.adjacency_table(case)
        case['adj_table'] = table
    return '(AdjCustom %s)' % clist(table, clist)


def coq_structs(structs):
    return clist(structs, lambda s: '(%s, (%s, (%s, %s)))' % (cz(s[0]), cz(s[1]), clist(s[2]), clist(s[3])))


def coq_input(case):
    return '%s, %s, %s, %s, %s' % (clist(case['shape']), coq_adj(case), clist(case['vals'], copt),
                                  copt(case.get('minv')), coq_crit(case))


def coq_compute_case(case, obs):
    return '(%s, (%s, (%s, %s)))' % (coq_input(case), clist(obs['order']), clist(obs['labels']),
                                      coq_structs(obs['structs']))


def model_compute_view(case, name='dump'):
    """The model's full output for one case (used for replays)."""
    term = 'compute_view %s %s %s %s %s' % (clist(case['shape']), coq_adj(case), clist(case['vals'], copt),
                                           copt(case.get('minv')), coq_crit(case))
    v = common.coq_dump(name, HEADER, term)
    if isinstance(v, tuple) and len(v) == 2 and isinstance(v[1], tuple):
        order, (labels, structs) = v
        return {'order': order, 'labels': labels,
                'structs': [(s[0], s[1][0], s[1][1][0], s[1][1][1]) for s in structs]}
    return {'error': v}


def run_compute_tie(name, cases, observations, shard=250):
    """cases[i] with observations[i] (from impl.compute_obs).  Returns (mismatching
    indices, coq errors)."""
    terms = [coq_compute_case(c, o) for c, o in zip(cases, observations)]
    return common.run_coq_shards(name, HEADER, terms, 'mismatches compute_ok', shard=shard, ctype='compute_case')


# ---------------------------------------------------------------- forests as Coq terms

def coq_tree(s, shape, vals):
    own = [(impl.ravel(shape, i)) for i in s._indices]
    return '(Node %s %s %s)' % (cz(s.idx), clist(own, lambda p: '(%s, %s)' % (cz(p), cz(vals[p]))),
                                clist(s.children, lambda c: coq_tree(c, shape, vals)))


def coq_forest(d, case):
    shape = tuple(case['shape'])
    return clist(list(d.trunk), lambda s: coq_tree(s, shape, case['vals']))


def nav_obs(d):
    nav = []
    for s in d:
        nav.append((int(s.idx), int(s.level), int(s.ancestor.idx), [int(x.idx) for x in s.descendants]))
    leaves = sorted(int(s.idx) for s in d.leaves)
    return nav, leaves, len(d)


def coq_nav_case(d, case):
    nav, leaves, n = nav_obs(d)
    navt = clist(nav, lambda e: '(%s, (%s, (%s, %s)))' % (cz(e[0]), cz(e[1]), cz(e[2]), clist(e[3])))
    return '(%s, (%s, (%s, %s)))' % (coq_forest(d, case), navt, clist(leaves), cz(n))


# ---------------------------------------------------------------- accessors (C06)

def to_scaled(x, case):
    den = case.get('den') or 2 ** case.get('scale', 0)
    if isinstance(x, (int, np.integer)) and not isinstance(x, (bool, np.bool_)):
        return int(x) * den                 # exact: 64-bit integers do not survive a trip through float
    v = float(x) * den
    r = int(round(v))
    if r != v:
        raise ValueError('value %r is not on the case grid' % (x,))
    return r


def acc_obs(d, case):
    shape = tuple(case['shape'])
    from . import oracles
    out = []
    for s in d:
        own = sorted(oracles.flat_indices(shape, s.indices(subtree=False)))
        sub = sorted(oracles.flat_indices(shape, s.indices(subtree=True)))
        po, ps = s.get_peak(subtree=False), s.get_peak(subtree=True)
        out.append((int(s.idx), own, sub, int(s.get_npix(subtree=False)), int(s.get_npix(subtree=True)),
                    to_scaled(s.vmin, case), to_scaled(s.vmax, case), to_scaled(s.height, case),
                    (impl.ravel(shape, po[0]), to_scaled(po[1], case)),
                    (impl.ravel(shape, ps[0]), to_scaled(ps[1], case))))
    return out


def coq_acc_case(d, case):
    obs = acc_obs(d, case)
    labels = [int(x) for x in d.index_map.ravel().tolist()]

    def one(e):
        return '(%s, ((%s, %s), ((%s, %s), ((%s, %s), (%s, ((%s, %s), (%s, %s)))))))' % (
            cz(e[0]), clist(e[1]), clist(e[2]), cz(e[3]), cz(e[4]), cz(e[5]), cz(e[6]), cz(e[7]),
            cz(e[8][0]), cz(e[8][1]), cz(e[9][0]), cz(e[9][1]))
    return '(%s, %s, %s)' % (clist(labels), coq_forest(d, case), clist(obs, one)), obs


# ---------------------------------------------------------------- prune (C07)
from fractions import Fraction


def params_scaled(d, case):
    """(min_delta scaled, (min_npix num, den)) from d.params."""
    den = case.get('den') or 2 ** case.get('scale', 0)
    md = Fraction(float(d.params['min_delta'])) * den
    if md.denominator != 1:
        raise ValueError('min_delta %r not on the case grid' % (d.params['min_delta'],))
    mn = Fraction(float(d.params['min_npix'])).limit_denominator(1000)
    return (int(md), (mn.numerator, mn.denominator))


def coq_params(p):
    return '(%s, (%s, %s))' % (cz(p[0]), cz(p[1][0]), cz(p[1][1]))


def coq_prune_case(case, forest_before, params_before, step, d_after):
    shape = tuple(case['shape'])
    n = 1
    for s in shape:
        n *= s
    num, den = step.get('npix', [0, 1])
    user = '[' + '; '.join(coq_one_crit(c) for c in step.get('crit', [])) + ']'
    labels = [int(x) for x in d_after.index_map.ravel().tolist()]
    structs = impl.structs_view(d_after, shape)
    return '(%d%%nat, %s, %s, %s, (%s, %s), %s, (%s, (%s, %s)))' % (
        n, forest_before, coq_params(params_before), cz(step.get('delta', 0)), cz(num), cz(den), user,
        coq_params(params_scaled(d_after, case)), clist(labels), coq_structs(structs))
