"""Running the implementation in /repo on a case and extracting canonical observables."""
import itertools
import numpy as np
from . import common
common.setup_env()
import astrodendro
from astrodendro import Dendrogram, periodic_neighbours
from astrodendro import pruning


def ravel(shape, coord):
    return int(np.ravel_multi_index(tuple(int(c) for c in coord), tuple(shape)))


def case_array(case):
    shape = tuple(case['shape'])
    k = case.get('scale', 0)
    dt = np.dtype(case.get('dtype', 'float64'))
    vals = case['vals']
    if dt.kind in 'iu':
        assert k == 0 and all(v is not None for v in vals)
        arr = np.array([int(v) for v in vals], dtype=dt).reshape(shape)
    else:
        den = float(case.get('den') or 2 ** k)
        arr = np.array([np.nan if v is None else v / den for v in vals], dtype=dt).reshape(shape)
    layout = case.get('layout', 'C')
    if layout == 'F':
        arr = np.asfortranarray(arr)
    elif layout == 'strided':
        big = np.zeros(tuple(2 * s for s in shape), dtype=dt)
        sl = tuple(slice(0, None, 2) for _ in shape)
        big[sl] = arr
        arr = big[sl]
    elif layout == 'readonly':
        arr.setflags(write=False)
    elif layout == 'T' and arr.ndim >= 2:
        arr = np.ascontiguousarray(arr.T).T          # same values and shape, transposed (Fortran-like) strides
    return arr


def diag_neighbours(dendrogram, idx):
    """User-supplied adjacency: full (3^n - 1) connectivity; coordinates -1 and n
    land on the padding cell of index_map, exactly as for the default."""
    n = len(idx)
    out = []
    for off in itertools.product((-1, 0, 1), repeat=n):
        if any(off):
            out.append(tuple(int(i) + o for i, o in zip(idx, off)))
    return out


def adjacency_function(case):
    a = case['adj']
    if a[0] == 'grid':
        per = [i for i, b in enumerate(a[1]) if b]
        if not per:
            return None
        if case.get('per_negative'):
            per = [i - len(a[1]) for i in per]          # axes counted from the end, as numpy does
        if len(per) == 1 and case.get('per_scalar'):
            return periodic_neighbours(per[0])
        return periodic_neighbours(per)
    if a[0] == 'diag':
        return diag_neighbours
    if a[0] == 'cut':
        # a user adjacency: the default one, except that the listed pixels are cut off (they have no neighbours and are
        # nobody's neighbour) - e.g. pixels a mask declares unusable
        cut = set(int(p) for p in a[1])
        shape = tuple(case['shape'])

        def cut_neighbours(dendrogram, idx):
            me = tuple(int(i) for i in idx)
            if ravel(shape, me) in cut:
                return []
            out = []
            for k in range(len(me)):
                for dlt in (1, -1):
                    q = list(me)
                    q[k] += dlt
                    if all(0 <= x < s_ for x, s_ in zip(q, shape)) and ravel(shape, tuple(q)) in cut:
                        continue
                    out.append(tuple(q))
            return out
        return cut_neighbours
    raise ValueError(a)


def adjacency_table(case):
    """Tabulate a user adjacency resolved through the padding: for every pixel the
    in-range neighbours (what the label lookup can ever see)."""
    shape = tuple(case['shape'])
    fn = adjacency_function(case)

    class D:
        pass
    d = D()
    d.n_dim = len(shape)
    d.index_map = np.zeros(tuple(s + 1 for s in shape), dtype=np.int32)
    d.data = np.zeros(shape)            # what a dendrogram under construction also carries (an adjacency may read its shape)
    table = []
    for p in range(int(np.prod(shape))):
        c = np.unravel_index(p, shape)
        res = []
        for q in fn(d, np.array(c)):
            q = tuple(int(x) for x in q)
            # resolve python negative indexing in the padded array
            q = tuple(x if x >= 0 else x + shape[i] + 1 for i, x in enumerate(q))
            if all(0 <= x < shape[i] for i, x in enumerate(q)):
                res.append(ravel(shape, q))
        table.append(res)
    return table


def criteria_functions(case):
    k = case.get('scale', 0)
    s = float(case.get('den') or 2 ** k)
    fs = []
    for c in case.get('crit', []):
        if c[0] == 'peak':
            fs.append(pruning.min_peak(c[1] / s if s != 1 else c[1]))
        elif c[0] == 'sum':
            fs.append(pruning.min_sum(c[1] / s if s != 1 else c[1]))
        elif c[0] == 'seeds':
            shape = tuple(case['shape'])
            flat = list(c[1])
            if len(flat) > 1 and sum(flat) % 2 == 1:
                flat = flat[::-1]                     # a seed catalogue need not be in raster order ...
            if sum(flat) % 3 == 0:
                flat = flat + flat[:1]                # ... nor free of duplicates
            coords = np.unravel_index(np.array(flat, dtype=int), shape)
            fs.append(pruning.contains_seeds(tuple(np.asarray(x) for x in coords)))
        elif c[0] == 'delta':
            fs.append(pruning.min_delta(c[1] / s))
        elif c[0] == 'npix':
            fs.append(pruning.min_npix(c[1] / float(c[2])))
        else:
            raise ValueError(c)
    return fs


def compute_kwargs(case):
    k = case.get('scale', 0)
    s = float(case.get('den') or 2 ** k)
    kw = {}
    isint = np.dtype(case.get('dtype', 'float64')).kind in 'iu'
    if case.get('minv') is not None:
        kw['min_value'] = int(case['minv']) if isint else case['minv'] / s
        if isint and case.get('minv_frac'):
            # fractional threshold on integer data: v > m + 0.5  <=>  v > m  for integers
            kw['min_value'] = int(case['minv']) + 0.5
    d = case.get('delta', 0)
    kw['min_delta'] = int(d) if (isint and k == 0) else d / s
    num, den = case.get('npix', [0, 1])
    kw['min_npix'] = num // den if num % den == 0 else num / float(den)
    fs = criteria_functions(case)
    if fs:
        kw['is_independent'] = fs[0] if (len(fs) == 1 and case.get('crit_single')) else fs
    nb = adjacency_function(case)
    if nb is not None:
        kw['neighbours'] = nb
    if case.get('verbose'):
        kw['verbose'] = True
    return kw


def run_compute(case):
    arr = case_array(case)
    d = Dendrogram.compute(arr, **compute_kwargs(case))
    return d


def structs_view(d, shape):
    """[(id, parent id or -1, [child ids], [own pixels in insertion order])] in iteration order."""
    out = []
    for s in d:
        out.append((int(s.idx), int(s.parent.idx) if s.parent is not None else -1,
                    [int(c.idx) for c in s.children],
                    [ravel(shape, i) for i in s._indices]))
    return out


def compute_obs(case):
    shape = tuple(case['shape'])
    d = run_compute(case)
    order = [ravel(shape, c) for c in d._verif_order]
    labels = [int(x) for x in d.index_map.ravel().tolist()]
    return d, {'order': order, 'labels': labels, 'structs': structs_view(d, shape)}


def impl_hierarchy(d, shape):
    """Canonical (own pixel set, smallest own pixel of the parent or None)."""
    out = []
    for s in d:
        own = tuple(sorted(ravel(shape, i) for i in s._indices))
        par = None if s.parent is None else min(ravel(shape, i) for i in s.parent._indices)
        out.append((own, par))
    return sorted(out)
