"""Shared plumbing: environment, Coq literal emission, running coqc on generated
case files, parsing its output, evidence files, known findings, replays."""
import os, sys, json, time, re, hashlib, subprocess, random, shutil
from concurrent.futures import ThreadPoolExecutor

VERIF = os.path.dirname(os.path.dirname(os.path.abspath(__file__)))
REPO = os.environ.get('VERIF_REPO', '/repo')
COQDIR = os.path.join(VERIF, 'coq')
# VERIF_REPO / VERIF_OUT exist only for experiments on seeded changes in scratch worktrees (tools/run_seeds_wt.sh):
# the registered commands never set them, so checks run against /repo and write under /verif.
OUT = os.environ.get('VERIF_OUT', VERIF)
CORR = os.path.join(OUT, 'corr')
REPLAYS = os.path.join(OUT, 'replays')
EVIDENCE = os.path.join(OUT, 'evidence')
CORPUS = os.path.join(VERIF, 'corpus')


def setup_env():
    """Force the implementation under test to be /repo's working tree, hooks on."""
    os.environ['ASTRODENDRO_VERIF'] = '1'
    os.environ.setdefault('MPLBACKEND', 'Agg')
    os.environ['PYTHONHASHSEED'] = '0'
    sys.path[:] = [p for p in sys.path if 'astrodendro' not in p]
    if REPO not in sys.path:
        sys.path.insert(0, REPO)
    sys.dont_write_bytecode = True
    import warnings
    warnings.filterwarnings('ignore')
    import astrodendro
    assert os.path.abspath(astrodendro.__file__).startswith(os.path.abspath(REPO)), astrodendro.__file__


# ---------------------------------------------------------------- Coq literals

def cz(n):
    n = int(n)
    return '(%d)' % n if n < 0 else '%d' % n


def clist(xs, f=cz):
    return '[' + '; '.join(f(x) for x in xs) + ']'


def copt(x, f=cz):
    return 'None' if x is None else '(Some %s)' % f(x)


def cbool(b):
    return 'true' if b else 'false'


def cpair(a, b):
    return '(%s, %s)' % (a, b)


# ---------------------------------------------------------------- Coq output parser

_tok = re.compile(r'\s*(?:(-?\d+)(?:%[A-Za-z]+)?|([\[\]\(\);,])|([A-Za-z_][A-Za-z_0-9\.]*)|(")|(%[A-Za-z]+))')


def parse_coq_term(s):
    """Parse a printed Coq value built from Z/nat numerals, lists, tuples,
    Some/None, true/false into Python ints / lists / tuples / None / bools.
    ('Some x' is returned as ('Some', x) to distinguish it from x.)"""
    toks = []
    pos = 0
    s = s.strip()
    while pos < len(s):
        m = _tok.match(s, pos)
        if not m:
            raise ValueError('cannot tokenise at %r' % s[pos:pos + 40])
        pos = m.end()
        if m.group(1) is not None:
            toks.append(int(m.group(1)))
        elif m.group(2):
            toks.append(m.group(2))
        elif m.group(3):
            toks.append(('id', m.group(3)))
        elif m.group(5):
            pass  # scope delimiter after a parenthesis
        else:
            raise ValueError('strings unsupported')
    i = [0]

    def peek():
        return toks[i[0]] if i[0] < len(toks) else None

    def nxt():
        t = toks[i[0]]
        i[0] += 1
        return t

    def atom():
        t = nxt()
        if isinstance(t, int):
            return t
        if t == '[':
            out = []
            if peek() == ']':
                nxt()
                return out
            while True:
                out.append(expr())
                t = nxt()
                if t == ']':
                    return out
                assert t == ';', t
        if t == '(':
            first = expr()
            items = [first]
            while peek() == ',':
                nxt()
                items.append(expr())
            assert nxt() == ')'
            return items[0] if len(items) == 1 else tuple(items)
        if isinstance(t, tuple):
            name = t[1]
            if name == 'None':
                return None
            if name == 'true':
                return True
            if name == 'false':
                return False
            if name == 'Some':
                return ('Some', atom())
            return ('id', name)
        raise ValueError('unexpected token %r' % (t,))

    def expr():
        return atom()

    return expr()


def coq_eval_blocks(out):
    """Split coqc stdout into the values printed by successive Eval commands."""
    blocks = []
    cur = None
    for line in out.splitlines():
        if line.startswith('     = '):
            if cur is not None:
                blocks.append(cur)
            cur = line[7:]
        elif line.startswith('     : '):
            if cur is not None:
                blocks.append(cur)
                cur = None
        elif cur is not None:
            cur += ' ' + line.strip()
    if cur is not None:
        blocks.append(cur)
    return blocks


def run_coq_file(path, timeout=600):
    cmd = ['timeout', str(timeout), 'coqc', '-Q', os.path.join(COQDIR, 'theories'), 'Dendro', path]
    p = subprocess.run(cmd, stdout=subprocess.PIPE, stderr=subprocess.PIPE, text=True, cwd=os.path.dirname(path))
    return p.returncode, p.stdout, p.stderr


def run_coq_shards(name, header, case_terms, evaluator, shard=300, timeout=900, ctype=None):
    """Write shards `<name>_<k>.v`, each defining `cases` and evaluating
    `evaluator cases` (which must return the list of indices, as nat or Z, of
    the cases on which model and implementation differ).  Returns
    (mismatch_indices, errors)."""
    os.makedirs(CORR, exist_ok=True)
    files = []
    for k in range(0, len(case_terms), shard):
        path = os.path.join(CORR, '%s_%d.v' % (name, k // shard))
        with open(path, 'w') as f:
            f.write(header + '\n')
            f.write('Definition cases%s := [\n' % ((' : list (%s)' % ctype) if ctype else '') + ';\n'.join(case_terms[k:k + shard]) + '\n].\n')
            f.write('Eval vm_compute in (%s cases).\n' % evaluator)
        files.append((k, path))
    mism, errors = [], []

    def one(kp):
        k, path = kp
        rc, out, err = run_coq_file(path, timeout)
        if rc != 0:
            return k, None, 'coqc failed on %s: %s' % (path, (err or out)[-2000:])
        bl = coq_eval_blocks(out)
        if not bl:
            return k, None, 'no Eval output from %s' % path
        try:
            val = parse_coq_term(bl[-1])
        except Exception as e:
            return k, None, 'unparsable output from %s: %s' % (path, e)
        return k, val, None

    with ThreadPoolExecutor(max_workers=min(14, max(1, len(files)))) as ex:
        for k, val, e in ex.map(one, files):
            if e:
                errors.append(e)
            else:
                mism.extend(k + int(j) for j in val)
    for _, path in files:
        base = path[:-2]
        for ext in ('.vo', '.vok', '.vos', '.glob'):
            try:
                os.remove(base + ext)
            except OSError:
                pass
        try:
            os.remove(os.path.join(os.path.dirname(path), '.' + os.path.basename(base) + '.aux'))
        except OSError:
            pass
    return sorted(mism), errors


def coq_dump(name, header, term, timeout=300):
    """Evaluate one term with vm_compute and return the parsed value."""
    os.makedirs(CORR, exist_ok=True)
    path = os.path.join(CORR, '%s.v' % name)
    with open(path, 'w') as f:
        f.write(header + '\nEval vm_compute in (%s).\n' % term)
    rc, out, err = run_coq_file(path, timeout)
    for ext in ('.vo', '.vok', '.vos', '.glob'):
        try:
            os.remove(path[:-2] + ext)
        except OSError:
            pass
    if rc != 0:
        return ('error', (err or out)[-1500:])
    bl = coq_eval_blocks(out)
    try:
        return parse_coq_term(bl[-1])
    except Exception as e:
        return ('unparsed', bl[-1][:1500] if bl else '')


# ---------------------------------------------------------------- theorems

def check_props(pid, timeout=900):
    """Re-check props/<pid>.v (which contains only `Theorem .. exact lemma. Qed.`
    and `Print Assumptions`) against the compiled theories and return
    (ok, theorems, assumptions_text, message).  The theories themselves are
    (re)built by `make coq` when a .vo is missing or older than its source."""
    ok, msg = ensure_coq_build()
    if not ok:
        return False, [], '', msg
    src = os.path.join(COQDIR, 'props', pid + '.v')
    if not os.path.exists(src):
        return False, [], '', 'no props file ' + src
    text = open(src).read()
    thms = re.findall(r'^\s*(?:Theorem|Lemma|Corollary)\s+([A-Za-z0-9_\']+)', text, re.M)
    bad = re.findall(r'\b(Admitted|admit|Axiom|Parameter|Conjecture|Abort)\b', text)
    if bad:
        return False, thms, '', 'forbidden vernacular in props file: %s' % sorted(set(bad))
    tmpdir = os.path.join(CORR, 'props_' + pid)
    os.makedirs(tmpdir, exist_ok=True)
    tmp = os.path.join(tmpdir, pid + '.v')
    shutil.copy(src, tmp)
    cmd = ['timeout', str(timeout), 'coqc', '-Q', os.path.join(COQDIR, 'theories'), 'Dendro',
           '-Q', tmpdir, 'DendroPropsTmp', tmp]
    p = subprocess.run(cmd, stdout=subprocess.PIPE, stderr=subprocess.PIPE, text=True)
    shutil.rmtree(tmpdir, ignore_errors=True)
    if p.returncode != 0:
        return False, thms, p.stdout, 'props/%s.v does not compile: %s' % (pid, (p.stderr or p.stdout)[-1500:])
    return True, thms, p.stdout, ''


def ensure_coq_build():
    stale = False
    proj = open(os.path.join(COQDIR, '_CoqProject')).read().split()
    for v in [x for x in proj if x.endswith('.v')]:
        src = os.path.join(COQDIR, v)
        vo = src + 'o'
        if not os.path.exists(vo) or os.path.getmtime(vo) < os.path.getmtime(src):
            stale = True
            break
    if not stale:
        return True, ''
    p = subprocess.run(['make', '-C', VERIF, 'coq'], stdout=subprocess.PIPE, stderr=subprocess.STDOUT, text=True)
    if p.returncode != 0:
        return False, 'Coq build failed: ' + p.stdout[-2000:]
    return True, ''


def assumptions_summary(text):
    """Summarise Print Assumptions output: number of theorems closed under the global context,
    and the names of all axioms / primitives the others depend on."""
    axioms = set()
    closed = 0
    in_ax = False
    for line in text.splitlines():
        if line.startswith('Closed under the global context'):
            closed += 1
            in_ax = False
        elif line.startswith('Axioms:'):
            in_ax = True
        elif in_ax:
            m = re.match(r'^([A-Za-z_][\w\.\']*)', line)
            if m and not line.startswith(' '):
                axioms.add(m.group(1))
            elif line.strip() == '' or line.startswith('Fetching'):
                continue
    return closed, sorted(axioms)


# ---------------------------------------------------------------- findings / evidence

def load_known_findings():
    p = os.path.join(VERIF, 'known_findings.json')
    if not os.path.exists(p):
        return []
    return json.load(open(p))['findings']


def write_replay(pid, payload):
    os.makedirs(REPLAYS, exist_ok=True)
    blob = json.dumps(payload, sort_keys=True, default=str)
    h = hashlib.sha1(blob.encode()).hexdigest()[:10]
    path = os.path.join(REPLAYS, '%s-%s.json' % (pid, h))
    with open(path, 'w') as f:
        json.dump(payload, f, indent=1, sort_keys=True, default=str)
    return path


def write_evidence(pid, tier, seed, coverage, assumptions, wall, violations):
    os.makedirs(EVIDENCE, exist_ok=True)
    ev = {
        'property_id': pid, 'tier': tier, 'seed': int(seed), 'level': 'proof',
        'coverage': coverage, 'assumptions': assumptions, 'wall_s': round(wall, 2),
        'violations': int(violations),
    }
    with open(os.path.join(EVIDENCE, pid + '.json'), 'w') as f:
        json.dump(ev, f, indent=1, default=str)


class Rng(random.Random):
    pass


def make_rng(pid, seed, stream=''):
    h = hashlib.sha256(('%s|%s|%s' % (pid, seed, stream)).encode()).digest()
    return Rng(int.from_bytes(h[:8], 'big'))


def coq_dump_many(name, header, terms, batch=50, timeout=600):
    """Evaluate many terms (vm_compute) in parallel batches; returns a list with one parsed value
    per term (None where the evaluation failed) and a list of error strings."""
    chunks = [(k, terms[k:k + batch]) for k in range(0, len(terms), batch)]
    out = [None] * len(terms)
    errors = []

    def one(kc):
        k, chunk = kc
        val = coq_dump('%s_%d' % (name, k // batch), header, '[' + ';\n'.join(chunk) + ']', timeout=timeout)
        return k, chunk, val

    with ThreadPoolExecutor(max_workers=min(14, max(1, len(chunks)))) as ex:
        for k, chunk, val in ex.map(one, chunks):
            if not isinstance(val, list) or len(val) != len(chunk):
                errors.append('Coq evaluation failed for %s batch %d: %r' % (name, k // batch, str(val)[:400]))
                continue
            out[k:k + len(chunk)] = val
    return out, errors
