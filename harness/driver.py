"""Generic check driver: theorems + tie + oracle, VIOLATION / KNOWN-FINDING protocol,
evidence."""
import sys, os, time, json, importlib, traceback, argparse
from . import common

TRUSTED_BASE_COMMON = [
    'Coq 8.16.1 kernel (coqc), vm_compute for the correspondence evaluation and for witnesses; no native_compute',
    'hand-written Coq models tied to /repo by the correspondence check of this run (no translator, no extraction)',
    'Python harness: generators, runner of /repo, canonicaliser, emitter of case files, oracles, shrinker',
    'numpy/astropy/h5py/matplotlib as part of the implementation side',
]


def summarise_axioms(axioms):
    out, prim = [], {}
    for a in axioms:
        head = a.split('.')[0]
        if head in ('PrimInt63', 'Uint63', 'PrimFloat', 'FloatAxioms', 'FloatOps', 'SpecFloat'):
            prim[head] = prim.get(head, 0) + 1
        else:
            out.append('axiom used (standard library): ' + a)
    for h, n in sorted(prim.items()):
        out.append('kernel primitives / their standard-library specification axioms: %s.* (%d names, via Bignums / Interval)' % (h, n))
    return out


class Ctx:
    def __init__(self, pid, tier, seed):
        self.pid, self.tier, self.seed = pid, tier, seed
        self.quick = tier == 'quick'
        self.evaluations = 0
        self.nontrivial_keys = set()
        self.samples = []
        self.dist = {}
        self.oracle_failures = []     # (case, [messages])
        self.tie_mismatches = []      # (projection, case, impl_obs, model_obs)
        self.errors = []              # infrastructure problems (coqc failed, ...)
        self.notes = {}
        self.known_hits = []

    def rng(self, stream=''):
        return common.make_rng(self.pid, self.seed, stream)

    def count(self, key, n=1):
        self.dist[key] = self.dist.get(key, 0) + n

    def case_done(self, case, nontrivial_key=None, sample=None):
        self.evaluations += 1
        if nontrivial_key is not None:
            self.nontrivial_keys.add(nontrivial_key)
        if sample is not None and len(self.samples) < 3:
            self.samples.append(sample)

    def oracle_failure(self, case, fails, extra=None):
        self.oracle_failures.append((case, list(fails)[:6], extra))

    def tie_mismatch(self, projection, case, impl_obs, model_obs):
        self.tie_mismatches.append((projection, case, impl_obs, model_obs))


def main(argv=None):
    ap = argparse.ArgumentParser()
    ap.add_argument('pid')
    ap.add_argument('--tier', default=os.environ.get('VERIF_TIER', 'quick'))
    ap.add_argument('--replay')
    ap.add_argument('--seed', type=int, default=int(os.environ.get('VERIF_SEED', '20261001')))
    a = ap.parse_args(argv)
    pid = a.pid.upper()
    tier = 'thorough' if a.tier.startswith('t') else 'quick'
    t0 = time.time()
    common.setup_env()
    mod = importlib.import_module('harness.props.' + pid.lower())
    if a.replay:
        return mod.replay(a.replay)
    ctx = Ctx(pid, tier, a.seed)
    ok_thm, thms, assum_text, thm_msg = common.check_props(pid)
    closed, axioms = common.assumptions_summary(assum_text)
    try:
        mod.explore(ctx)
    except Exception:
        ctx.errors.append('harness exception: ' + traceback.format_exc()[-3000:])
    known = [k for k in common.load_known_findings() if k.get('property') == pid and k.get('kind') == 'known']
    violations = 0
    lines = []
    # --- oracle failures: concrete failing inputs
    reported = set()
    for case, fails, extra in ctx.oracle_failures:
        kf = None
        for k in known:
            try:
                if mod.matches_known(k, case, fails, extra):
                    kf = k
                    break
            except Exception:
                pass
        if kf is not None:
            if kf['id'] not in reported:
                reported.add(kf['id'])
                lines.append('KNOWN-FINDING: property=%s %s' % (pid, kf['summary']))
            continue
        if violations < 3:
            small = case
            try:
                if hasattr(mod, 'shrink'):
                    small = mod.shrink(case, fails, extra)
            except Exception:
                small = case
            path = common.write_replay(pid, {'property': pid, 'kind': 'property violated on the implementation',
                                             'case': small, 'original_case': case, 'failures': fails, 'extra': extra,
                                             'seed': a.seed, 'tier': tier})
            lines.append('VIOLATION property=%s replay=%s' % (pid, path))
        violations += 1
    # --- tie / theorem breakage without a failing input
    if violations == 0:
        broken = []
        if not ok_thm:
            broken.append({'what': 'theorem file props/%s.v no longer checks' % pid, 'detail': thm_msg, 'theorems': thms})
        for projection, case, iobs, mobs in ctx.tie_mismatches[:3]:
            broken.append({'what': 'correspondence %s: model and implementation differ' % projection,
                           'case': case, 'implementation': iobs, 'model': mobs})
        for e in ctx.errors[:3]:
            broken.append({'what': 'check infrastructure failure', 'detail': e})
        if broken:
            path = common.write_replay(pid, {'property': pid, 'kind': 'no failing input found; the property is no longer shown to hold',
                                             'broken': broken, 'n_tie_mismatches': len(ctx.tie_mismatches),
                                             'seed': a.seed, 'tier': tier})
            lines.append('VIOLATION property=%s replay=%s no-failing-input-found' % (pid, path))
            violations += 1
    wall = time.time() - t0
    cov = {
        'obligations': max(1, len(thms)),
        'discharged': len(thms) if ok_thm else 0,
        'checker_cmd': 'make -C /verif coq  (coq_makefile, full .vo build) && coqc -Q coq/theories Dendro coq/props/%s.v  (re-checked in this run)' % pid,
        'trusted_base': TRUSTED_BASE_COMMON + getattr(mod, 'TRUSTED', []) +
                        ['Print Assumptions: %d theorem(s) closed under the global context' % closed] +
                        summarise_axioms(axioms),
        'theorems': thms,
        'evaluations': ctx.evaluations,
        'distinct_nontrivial': len(ctx.nontrivial_keys),
        'rule': getattr(mod, 'RULE', ''),
        'samples': ctx.samples or [{'note': 'no case generated'}],
        'input_distribution': ctx.dist,
        'traces_validated_against_impl': ctx.evaluations,
        'tie_mismatches': len(ctx.tie_mismatches),
        'oracle_failures': len(ctx.oracle_failures),
        'known_findings_reproduced': sorted(reported),
        'notes': ctx.notes,
        'explanation': getattr(mod, 'EXPLANATION', ''),
    }
    common.write_evidence(pid, tier, a.seed, cov, getattr(mod, 'ASSUMPTIONS', []), wall, violations)
    # whatever the code under test wrote to the terminal (a progress bar ends without a newline) must not share a
    # line with the verdict lines
    sys.stdout.flush()
    if lines:
        sys.stdout.write('\n')
    for l in lines:
        print(l)
    print('%s %s: theorems=%d/%d evaluations=%d nontrivial=%d tie_mismatches=%d oracle_failures=%d wall=%.1fs' % (
        pid, tier, cov['discharged'], cov['obligations'], ctx.evaluations, len(ctx.nontrivial_keys),
        len(ctx.tie_mismatches), len(ctx.oracle_failures), wall))
    return 1 if violations else 0


if __name__ == '__main__':
    sys.exit(main())
