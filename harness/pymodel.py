"""Straight-line Python rendering of the documented construction (the same
algorithm as coq/theories/Compute.v, on pixel sets).  It is NOT the proof
object: it is used as the C04 oracle on the recorded pixel order and as a fast
stand-in for the Coq model while searching for / shrinking a failing input
(every reported mismatch is re-confirmed against the Coq model)."""


class T:
    __slots__ = ('id', 'own', 'kids', 'newid')

    def __init__(self, id, own, kids):
        self.id, self.own, self.kids = id, own, kids

    def region(self):
        out = [p for p, _ in self.own]
        for k in self.kids:
            out.extend(k.region())
        return out

    def nodes(self):
        out = [self]
        for k in self.kids:
            out.extend(k.nodes())
        return out

    @property
    def vmax(self):
        return max(v for _, v in self.own)

    @property
    def vmin(self):
        return min(v for _, v in self.own)


def crit_at(c, own, v):
    vs = [x for _, x in own]
    if c[0] == 'delta':
        return max(vs) - v >= c[1]
    return crit_plain(c, own)


def crit_plain(c, own):
    vs = [x for _, x in own]
    if c[0] == 'delta':
        return True
    if c[0] == 'npix':
        return len(own) * c[2] >= c[1]
    if c[0] == 'peak':
        return max(vs) >= c[1]
    if c[0] == 'sum':
        return sum(vs) >= c[1]
    if c[0] == 'seeds':
        return any(p in c[1] for p, _ in own)
    raise ValueError(c)


def crit_final(c, own):
    vs = [x for _, x in own]
    if c[0] == 'delta':
        return max(vs) - min(vs) >= c[1]
    return crit_plain(c, own)


def criteria_of(case):
    num, den = case.get('npix', [0, 1])
    return [['delta', case.get('delta', 0)], ['npix', num, den]] + [list(c) for c in case.get('crit', [])]


def indep(cs, own, v):
    if v is None:
        return all(crit_final(c, own) for c in cs)
    return all(crit_at(c, own, v) for c in cs)


def run(order, adj, cs):
    """order: [(pixel, value)], adj: pixel -> list of pixels."""
    roots = []
    where = {}
    for p, v in order:
        tch = []
        for q in adj[p]:
            r = where.get(q)
            if r is not None and all(r is not x for x in tch):
                tch.append(r)
        tch.sort(key=lambda t: t.id)
        if not tch:
            new = T(p, [(p, v)], [])
        elif len(tch) == 1:
            new = tch[0]
            new.own.append((p, v))
        else:
            mg = [t for t in tch if not t.kids and (t.vmax == v or not indep(cs, t.own, v))]
            keep = [t for t in tch if all(t is not m for m in mg)]
            if not keep:
                new = mg.pop()
                new.own.append((p, v))
            elif len(keep) == 1:
                new = keep[0]
                new.own.append((p, v))
            else:
                new = T(p, [(p, v)], keep)
            for m in mg:
                new.own.extend(m.own)
        roots = [r for r in roots if all(r is not t for t in tch)] + [new]
        for q in new.region():
            where[q] = new
    return roots


def finish(roots, cs):
    trunk = sorted(roots, key=lambda t: t.id)
    trunk = [t for t in trunk if t.kids or indep(cs, t.own, None)]
    alln = [u for t in trunk for u in t.nodes()]
    small = {id(u): min(p for p, _ in u.own) for u in alln}
    for u in alln:
        u.newid = sum(1 for w in alln if small[id(w)] < small[id(u)])
    return trunk


def hierarchy(trunk):
    """Canonical (own pixel set, parent's own pixel set or None) description."""
    out = []

    def walk(t, parent):
        out.append((tuple(sorted(p for p, _ in t.own)), None if parent is None else min(p for p, _ in parent.own)))
        for k in t.kids:
            walk(k, t)
    for t in trunk:
        walk(t, None)
    return sorted(out)


def model_order(case):
    vals = case['vals']
    mv = case.get('minv')
    kept = [(p, v) for p, v in enumerate(vals) if v is not None and (mv is None or v > mv)]
    return sorted(kept, key=lambda pv: (pv[1], pv[0]), reverse=True)


def compute(case, adj, order=None):
    cs = criteria_of(case)
    if order is None:
        order = model_order(case)
    return finish(run(order, adj, cs), cs)
