"""Property oracles: the statement of each property evaluated directly on the
implementation's observables (used to cross-check the theorems' reading of the
property and to search for a concrete failing input)."""
import itertools
import numpy as np
from . import impl


# ---------------------------------------------------------------- helpers

def grid_neighbours(shape, per):
    """Reference adjacency written independently of both the implementation and
    the Coq model: coordinates differ by +-1 in exactly one axis, modulo the axis
    length iff the axis is periodic."""
    shape = tuple(shape)
    n = int(np.prod(shape))
    table = []
    for p in range(n):
        c = list(np.unravel_index(p, shape))
        res = []
        for a in range(len(shape)):
            for d in (1, -1):
                x = c[a] + d
                if per[a]:
                    x %= shape[a]
                elif not (0 <= x < shape[a]):
                    continue
                q = list(c)
                q[a] = x
                res.append(int(np.ravel_multi_index(tuple(q), shape)))
        table.append(res)
    return table


def diag_table(shape):
    shape = tuple(shape)
    n = int(np.prod(shape))
    table = []
    for p in range(n):
        c = np.unravel_index(p, shape)
        res = []
        for off in itertools.product((-1, 0, 1), repeat=len(shape)):
            if any(off):
                q = tuple(int(ci) + o for ci, o in zip(c, off))
                if all(0 <= x < s for x, s in zip(q, shape)):
                    res.append(int(np.ravel_multi_index(q, shape)))
        table.append(res)
    return table


def ref_adjacency(case):
    a = case['adj']
    if a[0] == 'grid':
        return grid_neighbours(case['shape'], a[1])
    if a[0] == 'diag':
        return diag_table(case['shape'])
    if a[0] == 'cut':
        cut = set(int(p) for p in a[1])
        base = grid_neighbours(case['shape'], [False] * len(case['shape']))
        return [[] if p in cut else [q for q in nb if q not in cut] for p, nb in enumerate(base)]
    raise ValueError(a)


def kept_pixels(case, d=None):
    vals = case['vals']
    mv = case.get('minv')
    return [p for p, v in enumerate(vals) if v is not None and (mv is None or v > mv)]


def components(pixels, adj):
    pix = set(pixels)
    seen = set()
    comps = []
    for p in pixels:
        if p in seen:
            continue
        comp = []
        stack = [p]
        seen.add(p)
        while stack:
            x = stack.pop()
            comp.append(x)
            for q in adj[x]:
                if q in pix and q not in seen:
                    seen.add(q)
                    stack.append(q)
        comps.append(sorted(comp))
    return comps


def is_connected(pixels, adj):
    pixels = list(pixels)
    if not pixels:
        return False
    return len(components(pixels, adj)) == 1


def flat_indices(shape, idx_tuple):
    if len(idx_tuple) == 0 or len(idx_tuple[0]) == 0:
        return []
    return [int(x) for x in np.ravel_multi_index(tuple(np.asarray(i) for i in idx_tuple), tuple(shape))]


def crit_eval(case, pix, value=None, final_minmax=True):
    """Evaluate the criteria of the case on a pixel set treated as one leaf.
    value=None: the final (parentless) test.  Values are the scaled integers."""
    vals = case['vals']
    vs = [vals[p] for p in pix]
    vmax, vmin = max(vs), min(vs)
    delta = case.get('delta', 0)
    num, den = case.get('npix', [0, 1])
    ok = []
    ok.append((vmax - (vmin if value is None else value)) >= delta)
    ok.append(len(pix) * den >= num)
    for c in case.get('crit', []):
        if c[0] == 'peak':
            ok.append(vmax >= c[1])
        elif c[0] == 'sum':
            ok.append(sum(vs) >= c[1])
        elif c[0] == 'seeds':
            ok.append(bool(set(pix) & set(c[1])))
    return all(ok)


def monotone_criteria(case):
    vals = [v for v in case['vals'] if v is not None]
    for c in case.get('crit', []):
        if c[0] == 'sum' and any(v < 0 for v in vals):
            return False
    return True


# ---------------------------------------------------------------- C01

def oracle_c01(case, d):
    fails = []
    shape = tuple(case['shape'])
    n = int(np.prod(shape))
    labels = [int(x) for x in d.index_map.ravel().tolist()]
    if d.index_map.shape != shape:
        fails.append('index_map shape %s != data shape %s' % (d.index_map.shape, shape))
        return fails
    adj = ref_adjacency(case)
    kept = kept_pixels(case)
    keptset = set(kept)
    for p in range(n):
        if labels[p] >= 0 and p not in keptset:
            fails.append('pixel %d labelled %d but not above threshold / not a number' % (p, labels[p]))
        if labels[p] < -1:
            fails.append('label %d at pixel %d' % (labels[p], p))
    mono = monotone_criteria(case)
    for comp in components(kept, adj):
        lab = [labels[p] >= 0 for p in comp]
        if any(lab) and not all(lab):
            fails.append('component %s partly assigned' % comp)
            continue
        passes = crit_eval(case, comp, None)
        if not any(lab):
            if passes and mono:
                fails.append('isolated region %s left unassigned although it meets the criteria' % comp)
            if passes and not mono:
                # without monotonicity the region may have been split differently; it is
                # unassigned only if it ended as one leaf, which then is the region itself
                fails.append('isolated region %s unassigned but passes the final test as one leaf' % comp)
        else:
            if (not passes) and mono:
                fails.append('isolated region %s assigned although it fails the criteria' % comp)
    # exactly-once: own sets
    owner = {}
    for s in d:
        for p in [impl.ravel(shape, i) for i in s._indices]:
            if p in owner:
                fails.append('pixel %d in own lists of %d and %d' % (p, owner[p], s.idx))
            owner[p] = s.idx
        own2 = flat_indices(shape, s.indices(subtree=False))
        if sorted(own2) != sorted(impl.ravel(shape, i) for i in s._indices):
            fails.append('indices(subtree=False) of %d differ from its own pixel list' % s.idx)
    for p in range(n):
        if labels[p] >= 0:
            if owner.get(p) != labels[p]:
                fails.append('label map says %d at pixel %d, own lists say %s' % (labels[p], p, owner.get(p)))
        elif p in owner:
            fails.append('pixel %d owned by %d but unlabelled' % (p, owner[p]))
        st = d.structure_at(np.unravel_index(p, shape))
        if labels[p] >= 0:
            if st is None or st.idx != labels[p] or d[labels[p]] is not st:
                fails.append('structure_at(%d) = %r, label %d' % (p, st, labels[p]))
        elif st is not None:
            fails.append('structure_at(%d) = %r for an unassigned pixel' % (p, st))
    if case.get('minv') is None:
        mv = d.params['min_value']
        arr = np.asarray(d.data)
        fin = arr[np.isfinite(arr)]
        for x in fin.ravel().tolist():
            if not (mv < x):
                fails.append('default min_value %r is not below finite pixel %r' % (mv, x))
                break
        for p, v in enumerate(case['vals']):
            if v is not None and p not in keptset:
                fails.append('finite pixel %d excluded by default threshold' % p)
    return fails


# ---------------------------------------------------------------- C02

def oracle_c02(d, computed=True):
    fails = []
    structs = list(d._structures_dict.values())
    byid = {}
    for s in structs:
        if s.idx in byid:
            fails.append('duplicate id %r' % s.idx)
        byid[s.idx] = s
    for k, s in d._structures_dict.items():
        if k != s.idx or d[k] is not s:
            fails.append('lookup by id %r returns structure with id %r' % (k, s.idx))
    if computed and sorted(byid) != list(range(len(structs))):
        fails.append('ids after compute are %s' % sorted(byid))
    if len(d) != len(structs):
        fails.append('len(d)')
    ids = set(id(s) for s in structs)
    for s in structs:
        if s.parent is not None:
            if id(s.parent) not in ids:
                fails.append('parent of %d is not in the dendrogram' % s.idx)
            elif sum(1 for c in s.parent.children if c is s) != 1:
                fails.append('%d occurs %d times in children of its parent' % (s.idx, sum(1 for c in s.parent.children if c is s)))
        for c in s.children:
            if c.parent is not s:
                fails.append('child %d of %d has parent %r' % (c.idx, s.idx, c.parent))
            if id(c) not in ids:
                fails.append('child %d of %d is not in the dendrogram' % (c.idx, s.idx))
        if len(s.children) == 1:
            fails.append('branch %d has one child' % s.idx)
        if s.is_leaf != (len(s.children) == 0) or s.is_branch == s.is_leaf:
            fails.append('is_leaf/is_branch of %d' % s.idx)
    trunk = list(d.trunk)
    if sorted(id(s) for s in trunk) != sorted(id(s) for s in structs if s.parent is None):
        fails.append('trunk %s is not the set of parentless structures' % [s.idx for s in trunk])
    it = list(d)
    if sorted(id(s) for s in it) != sorted(ids) or len(it) != len(structs):
        fails.append('iteration visits %s, structures are %s' % ([s.idx for s in it], sorted(byid)))
    pos = {id(s): i for i, s in enumerate(it)}
    for s in it:
        if s.parent is not None and id(s.parent) in pos and pos[id(s.parent)] > pos[id(s)]:
            fails.append('iteration yields %d before its parent' % s.idx)
    # navigation from parent links
    for s in structs:
        chain = []
        x = s
        while x.parent is not None and len(chain) <= len(structs):
            x = x.parent
            chain.append(x)
        if s.level != len(chain):
            fails.append('level of %d is %r, parent chain has length %d' % (s.idx, s.level, len(chain)))
        if s.ancestor is not (chain[-1] if chain else s):
            fails.append('ancestor of %d' % s.idx)
        below = []
        todo = list(s.children)
        while todo:
            y = todo.pop()
            below.append(y)
            todo.extend(y.children)
        desc = s.descendants
        if sorted(id(y) for y in desc) != sorted(id(y) for y in below) or len(desc) != len(below):
            fails.append('descendants of %d are %s, expected %s' % (s.idx, sorted(y.idx for y in desc), sorted(y.idx for y in below)))
    if sorted(id(s) for s in d.leaves) != sorted(id(s) for s in structs if not s.children):
        fails.append('leaves')
    return fails


# ---------------------------------------------------------------- C03

def oracle_c03(case, d):
    fails = []
    shape = tuple(case['shape'])
    adj = ref_adjacency(case)
    vals = case['vals']
    kept = kept_pixels(case)
    keptset = set(kept)
    labels = [int(x) for x in d.index_map.ravel().tolist()]
    for s in d:
        reg = flat_indices(shape, s.indices(subtree=True))
        rs = set(reg)
        if not is_connected(reg, adj):
            fails.append('region of %d is not connected: %s' % (s.idx, sorted(reg)))
        faint = min(vals[p] for p in reg)
        for p in reg:
            for q in adj[p]:
                if q in keptset and q not in rs and vals[q] > faint:
                    fails.append('pixel %d (%s) adjacent to region of %d is brighter than its faintest pixel (%s)' % (q, vals[q], s.idx, faint))
    trunk_regions = sorted(sorted(flat_indices(shape, s.indices(subtree=True))) for s in d.trunk)
    comps = sorted(c for c in components(kept, adj) if labels[c[0]] >= 0)
    if trunk_regions != comps:
        fails.append('trunk regions %s are not the surviving components %s' % (trunk_regions, comps))
    if case.get('delta', 0) == 0 and case.get('npix', [0, 1])[0] <= 0 and not case.get('crit'):
        for s in d:
            if s.children:
                own = flat_indices(shape, s.indices(subtree=False))
                sub = set(flat_indices(shape, s.indices(subtree=True))) - set(own)
                if own and sub and max(vals[p] for p in own) > min(vals[p] for p in sub):
                    fails.append('branch %d owns a pixel brighter than a pixel of its substructures' % s.idx)
    return fails


# ---------------------------------------------------------------- C05

def regional_maxima(kept, adj, vals):
    """Plateau components with no brighter-or-equal kept neighbour outside."""
    keptset = set(kept)
    seen = set()
    out = []
    for p in kept:
        if p in seen:
            continue
        v = vals[p]
        plat = []
        stack = [p]
        seen.add(p)
        while stack:
            x = stack.pop()
            plat.append(x)
            for q in adj[x]:
                if q in keptset and q not in seen and vals[q] == v:
                    seen.add(q)
                    stack.append(q)
        ps = set(plat)
        ismax = all(not (q in keptset and q not in ps and vals[q] >= v) for x in plat for q in adj[x])
        if ismax:
            out.append(sorted(plat))
    return out


def oracle_c05(case, d):
    fails = []
    shape = tuple(case['shape'])
    adj = ref_adjacency(case)
    vals = case['vals']
    kept = kept_pixels(case)
    keptset = set(kept)
    delta = case.get('delta', 0)
    num, den = case.get('npix', [0, 1])
    for s in d:
        if s.children:
            continue
        own = flat_indices(shape, s.indices(subtree=True))
        os_ = set(own)
        vmax = max(vals[p] for p in own)
        vmin = min(vals[p] for p in own)
        if s.parent is not None:
            outside = [vals[q] for p in own for q in adj[p] if q in keptset and q not in os_]
            if not outside:
                fails.append('leaf %d has a parent but no adjacent outside pixel' % s.idx)
                continue
            b = max(outside)
            if not vmax > b:
                fails.append('leaf %d peaks at %s, not strictly above its brightest outside neighbour %s' % (s.idx, vmax, b))
            if not (vmax - b >= delta):
                fails.append('leaf %d: peak %s - meeting %s < min_delta %s' % (s.idx, vmax, b, delta))
            if not (len(own) * den >= num):
                fails.append('leaf %d has %d pixels < min_npix %s/%s' % (s.idx, len(own), num, den))
            if not crit_eval(case, own, b):
                fails.append('leaf %d violates a criterion at meeting value %s' % (s.idx, b))
        else:
            if not (vmax - vmin >= delta):
                fails.append('parentless leaf %d spans %s < min_delta %s' % (s.idx, vmax - vmin, delta))
            if not (len(own) * den >= num):
                fails.append('parentless leaf %d has %d pixels < min_npix %s/%s' % (s.idx, len(own), num, den))
    if delta == 0 and num <= 0 and not case.get('crit'):
        rm = regional_maxima(kept, adj, vals)
        leaves = [s for s in d if not s.children]
        if len(leaves) != len(rm):
            fails.append('%d leaves but %d regional maxima' % (len(leaves), len(rm)))
        else:
            used = set()
            for s in leaves:
                pk = impl.ravel(shape, s.get_peak(subtree=True)[0])
                hit = [i for i, r in enumerate(rm) if pk in r]
                own = set(flat_indices(shape, s.indices(subtree=True)))
                if not hit:
                    fails.append('peak of leaf %d (pixel %d) is in no regional maximum' % (s.idx, pk))
                elif hit[0] in used:
                    fails.append('two leaves share regional maximum %s' % rm[hit[0]])
                else:
                    used.add(hit[0])
                    if not set(rm[hit[0]]) <= own:
                        fails.append('regional maximum %s not inside leaf %d' % (rm[hit[0]], s.idx))
    return fails


# ---------------------------------------------------------------- C06

def oracle_c06(case, d, shape=None, vals=None):
    fails = []
    shape = tuple(shape or case['shape'])
    data = np.asarray(d.data)
    labels = d.index_map
    flat_lab = [int(x) for x in labels.ravel().tolist()]
    for s in d._structures_dict.values():
        below = [s.idx]
        todo = list(s.children)
        while todo:
            y = todo.pop()
            below.append(y.idx)
            todo.extend(y.children)
        for subtree in (True, False):
            want_ids = set(below) if subtree else {s.idx}
            want = sorted(p for p, l in enumerate(flat_lab) if l in want_ids)
            idx = s.indices(subtree=subtree)
            got = flat_indices(shape, idx)
            tag = '%d/subtree=%s' % (s.idx, subtree)
            if sorted(got) != want:
                fails.append('indices(%s) = %s, labelled pixels %s' % (tag, sorted(got), want))
                continue
            v = np.asarray(s.values(subtree=subtree))
            dv = data[idx] if len(got) else np.array([])
            if v.shape != dv.shape or not np.array_equal(v, dv, equal_nan=True):
                fails.append('values(%s) are not the data at indices(%s)' % (tag, tag))
            if s.get_npix(subtree=subtree) != len(want):
                fails.append('get_npix(%s) = %r, expected %d' % (tag, s.get_npix(subtree=subtree), len(want)))
            m = s.get_mask(subtree=subtree)
            wm = np.zeros(shape, dtype=bool)
            wm.ravel()[want] = True
            if m.shape != wm.shape or m.dtype != bool or not (m == wm).all():
                fails.append('get_mask(%s) differs from the labelled pixels' % tag)
            elif m.flags.writeable:
                # the caller combines masks in place (mask |= other, mask[...] = False): the next
                # request must again be the labelled pixels
                m[...] = ~m
                m2 = s.get_mask(subtree=subtree)
                if m2.shape != wm.shape or not (m2 == wm).all():
                    fails.append('get_mask(%s) differs from the labelled pixels after the previously returned mask was modified by the caller' % tag)
            pk_idx, pk_val = s.get_peak(subtree=subtree)
            fd = data.ravel()
            mx = max(fd[p] for p in want)
            pk_flat = impl.ravel(shape, pk_idx)
            if pk_val != mx or pk_flat not in want or fd[pk_flat] != mx:
                fails.append('get_peak(%s) = (%s, %r); maximum over the labelled pixels is %r' % (tag, pk_flat, pk_val, mx))
        own = sorted(p for p, l in enumerate(flat_lab) if l == s.idx)
        fd = data.ravel()
        if s.vmin != min(fd[p] for p in own) or s.vmax != max(fd[p] for p in own):
            fails.append('vmin/vmax of %d: %r/%r' % (s.idx, s.vmin, s.vmax))
        if s.children:
            h = min(min(fd[p] for p, l in enumerate(flat_lab) if l == c.idx) for c in s.children)
        else:
            h = max(fd[p] for p in own)
        if s.height != h:
            fails.append('height of %d is %r, expected %r' % (s.idx, s.height, h))
        for p in own:
            if d.structure_at(np.unravel_index(p, shape)) is not s:
                fails.append('structure_at(own pixel %d of %d)' % (p, s.idx))
                break
    return fails
