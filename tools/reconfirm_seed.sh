#!/bin/bash
# usage: tools/reconfirm_seed.sh <seed-name> <rebased patch file>  — a stored change whose patch no longer applies to /repo
# HEAD (because of a later fix commit) was re-based by hand: confirm the re-based patch exactly as the original was
# confirmed (scratch worktree, pinned suite, demo with / without) and, if it still qualifies, replace patch.diff
# (the original is kept as patch.orig.diff) and note it in meta.json.
NAME=$1; P=$2; ID=${NAME%%-*}; D=/verif/seeded/$NAME
WT=/var/tmp/verif-reseed-$NAME
rm -rf $WT; git -C /repo worktree add -q --detach $WT HEAD || exit 2
cd $WT; res=ok
git apply $P 2>/dev/null || res="patch-does-not-apply"
if [ "$res" = ok ]; then
  suite=$(/verif/tools/baseline.sh $WT | head -1)
  echo "$suite" | grep -q "baseline_missing=0" || res="suite-fails"
  DEMO=$(mktemp /var/tmp/verif-demo-XXXXXX.py); sed -E "s#/tmp/mut(10|[23456789])?-$ID#$WT#g" $D/demo.py > $DEMO
  (cd $D && PYTHONPATH=$WT MPLBACKEND=Agg timeout 600 /venv/bin/python $DEMO >/dev/null 2>&1); with=$?
  git checkout -q -- .
  (cd $D && PYTHONPATH=$WT MPLBACKEND=Agg timeout 600 /venv/bin/python $DEMO >/dev/null 2>&1); without=$?
  rm -f $DEMO
  [ $with -ne 0 ] || res="demo-passes-with-change"
  [ $without -eq 0 ] || res="demo-fails-without-change"
fi
cd /; git -C /repo worktree remove --force $WT
echo "$NAME: $res suite=[$suite] demo_with=$with demo_without=$without"
if [ "$res" = ok ]; then
  [ -f $D/patch.orig.diff ] || cp $D/patch.diff $D/patch.orig.diff
  cp $P $D/patch.diff
  /venv/bin/python - "$D" "$suite" <<'PY'
import sys, json, os
d, suite = sys.argv[1:3]
m = json.load(open(d + '/meta.json'))
m['rebased'] = {'onto': os.popen('git -C /repo rev-parse --short HEAD').read().strip(),
                'why': 'a later fix commit touched the same lines; the change was re-applied by hand (original kept as patch.orig.diff) and re-confirmed: ' + suite}
json.dump(m, open(d + '/meta.json', 'w'), indent=1)
PY
fi
