#!/bin/bash
# usage: tools/run_seeds_wt.sh [-j N] [dir ...] — like run_seeds.sh, but each seeded change is applied to its own scratch
# worktree of /repo HEAD (under /var/tmp, removed afterwards) and the check runs against that worktree
# (VERIF_REPO / VERIF_OUT), so /repo is never touched and several changes can be tried in parallel.
cd /verif
J=4; if [ "$1" = "-j" ]; then J=$2; shift 2; fi
dirs="$@"; [ -z "$dirs" ] && dirs=$(ls -d seeded/*/)
one() {
  d=${1%/}; name=$(basename $d); id=${name%%-*}
  WT=/var/tmp/verif-seedwt-$name; OUT=/var/tmp/verif-seedout-$name
  rm -rf $WT $OUT; git -C /repo worktree add -q --detach $WT HEAD 2>/dev/null || { echo "$name: cannot create worktree"; return; }
  if ! git -C $WT apply /verif/$d/patch.diff 2>/dev/null; then echo "$name: patch does not apply to current /repo"; git -C /repo worktree remove --force $WT; return; fi
  mkdir -p $OUT
  out=$(VERIF_REPO=$WT VERIF_OUT=$OUT ./check $id 2>&1); rc=$?
  git -C /repo worktree remove --force $WT; rm -rf $OUT
  nviol=$(echo "$out" | grep -c "^VIOLATION")
  nf=$(echo "$out" | grep -c "no-failing-input-found")
  echo "$name: rc=$rc violations=$nviol no-failing-input=$nf :: $(echo "$out" | tail -1)"
  /venv/bin/python - "$d" "$id" "$rc" "$nviol" "$nf" "$(echo "$out" | tail -1)" <<'PY'
import sys, json
d, pid, rc, nv, nf, last = sys.argv[1:7]
json.dump({'check': './check %s --tier quick  (run against a scratch worktree of /repo HEAD with the change applied)' % pid, 'exit_code': int(rc), 'violation_lines': int(nv),
           'of_which_no_failing_input_found': int(nf), 'detected': int(rc) == 1 and int(nv) > 0, 'summary_line': last},
          open(d + '/detection.json', 'w'), indent=1)
PY
}
export -f one
printf '%s\n' $dirs | xargs -P $J -I{} bash -c 'one {}'
