#!/bin/bash
# usage: revert_test.sh <commit> <ID>
C=$1; ID=$2; WT=/var/tmp/verif-revert-$C; OUT=/var/tmp/verif-revout-$C
rm -rf $WT $OUT; git -C /repo worktree add -q --detach $WT HEAD || exit 2
(cd $WT && git revert --no-commit $C >/dev/null 2>&1) || { echo "$C: cannot revert"; git -C /repo worktree remove --force $WT; exit 0; }
mkdir -p $OUT; out=$(cd /verif && VERIF_REPO=$WT VERIF_OUT=$OUT ./check $ID 2>&1); rc=$?
echo "$C $ID rc=$rc :: $(echo "$out" | grep -c '^VIOLATION') violations :: $(echo "$out" | tail -1 | cut -c1-120)"
git -C /repo worktree remove --force $WT; rm -rf $OUT
