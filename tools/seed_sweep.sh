#!/bin/bash
# usage: tools/seed_sweep.sh [-j N] seed...  — run every quick check on the unchanged /repo with other PRNG seeds
# (outputs under /var/tmp, evidence in /verif untouched); any VIOLATION line here is a false alarm or a new finding.
cd /verif
J=3; if [ "$1" = "-j" ]; then J=$2; shift 2; fi
one() {
  seed=$1; id=$2; OUT=/var/tmp/verif-sweep-$seed-$id; mkdir -p $OUT
  out=$(VERIF_SEED=$seed VERIF_OUT=$OUT ./check $id 2>&1); rc=$?
  echo "seed=$seed $id rc=$rc :: $(echo "$out" | grep -c '^VIOLATION') violations :: $(echo "$out" | tail -1)"
  if [ $rc -ne 0 ]; then mkdir -p /var/tmp/verif-sweep-keep; cp -r $OUT/replays /var/tmp/verif-sweep-keep/$seed-$id 2>/dev/null; echo "$out" | grep VIOLATION; fi
  rm -rf $OUT
}
export -f one
for seed in "$@"; do for i in 01 02 03 04 05 06 07 08 09 10 11 12 13 14 15 16 17 18 19 20; do echo "$seed C$i"; done; done | xargs -P $J -L 1 bash -c 'one $0 $1'
