#!/bin/bash
# Run the pinned suite (guard OFF) in parallel and compare with BASELINE.json stable_pass.
# usage: tools/baseline.sh [repo_dir]
REPO=${1:-/repo}
OUT=$(mktemp /var/tmp/verif-junit.XXXXXX.xml)
cd "$REPO" && env -u ASTRODENDRO_VERIF MPLBACKEND=Agg /venv/bin/python -m pytest -q -p no:cacheprovider --timeout=900 --continue-on-collection-errors -n 12 --junitxml="$OUT" >/dev/null 2>&1
/venv/bin/python - "$OUT" <<'PY'
import sys, json, xml.etree.ElementTree as ET
base=json.load(open('/root/.vp/BASELINE.json'))
stable=set(base['stable_pass'])
passed=set(); failed=set()
for tc in ET.parse(sys.argv[1]).getroot().iter('testcase'):
    name=tc.get('classname')+'::'+tc.get('name')
    bad=any(c.tag in('failure','error') for c in tc)
    skipped=any(c.tag=='skipped' for c in tc)
    (failed if bad else passed).add(name) if not skipped else None
missing=sorted(stable-passed)
print("passed=%d failed=%d baseline_missing=%d"%(len(passed),len(failed),len(missing)))
for m in missing: print("  MISSING",m)
print("  extra failures:",sorted(failed-set(base['always_fail'])))
sys.exit(1 if missing else 0)
PY
rc=$?; rm -f "$OUT"; exit $rc
