#!/usr/bin/env python3
"""Regenerate MANIFEST.json from tools/manifest_entries.json (claimed checks) and properties.jsonl."""
import json, os, subprocess
V = '/verif'
props = [json.loads(l) for l in open(V + '/properties.jsonl')]
entries = json.load(open(V + '/tools/manifest_entries.json'))
hook = subprocess.check_output(['git', '-C', '/repo', 'log', '--format=%h', '--grep', 'verif hook']).decode().split()
checks, na = [], []
for p in props:
    pid = p['id']
    e = entries.get(pid)
    if e and e.get('claimed'):
        checks.append({
            'property_id': pid,
            'quick_cmd': './check %s --tier quick' % pid,
            'thorough_cmd': './check %s --tier thorough' % pid,
            'evidence_file': 'evidence/%s.json' % pid,
            'replay_cmd_template': './check %s --replay {path}' % pid,
            'engine': 'coq-model+correspondence',
            'level_claimed': {'category': 'proof', 'text': e['text'], 'design_ref': e.get('design_ref', 'DESIGN.md section 5, ' + pid)},
            'level_note': e['note'],
            'technique': e.get('technique', 'machine-checked proof in Coq about a hand-written model, tied to /repo by a correspondence check (vm_compute) on generated inputs'),
        })
    else:
        na.append({'property_id': pid, 'reason': (e or {}).get('reason', 'check not built yet (work in progress); not claimed')})
m = {
    'version': 1,
    'setup_cmd': 'make -C /verif setup',
    'hooks': {
        'guard': 'ASTRODENDRO_VERIF',
        'enable': 'environment variable ASTRODENDRO_VERIF=1 when importing /repo/astrodendro (pure Python, no build step); Dendrogram.compute then records the pixel processing order in self._verif_order',
        'baseline_off_cmd': 'cd /repo && env -u ASTRODENDRO_VERIF /venv/bin/python -m pytest -ra -q -p no:cacheprovider --timeout=900 --continue-on-collection-errors',
        'source_commits': hook,
        'add_only': True,
    },
    'engines': [{'name': 'coq-model+correspondence', 'path': 'coq/ , harness/ , check',
                 'serves_properties': [c['property_id'] for c in checks],
                 'kind_free_text': 'Coq 8.16.1 development (models + theorems, full .vo build) and a Python harness that runs /repo and the model (vm_compute inside coqc) on the same generated inputs and evaluates each property directly on the implementation'}],
    'checks': checks,
    'not_applicable': na,
    'notes': 'See DESIGN.md. Every check: (1) re-checks props/<id>.v against the compiled theories, (2) runs the correspondence (tie) between the Coq model and /repo, (3) evaluates the property oracle on the implementation; known findings are listed in known_findings.json.',
}
json.dump(m, open(V + '/MANIFEST.json', 'w'), indent=1)
print('claimed:', [c['property_id'] for c in checks])
