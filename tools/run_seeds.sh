#!/bin/bash
# usage: tools/run_seeds.sh [dir ...]  — apply every seeded change to /repo in turn, run the quick check of the
# property it targets, record whether it was reported, undo.  Writes seeded/<name>/detection.json.
cd /verif
dirs="$@"; [ -z "$dirs" ] && dirs=$(ls -d seeded/*/)
for d in $dirs; do
  d=${d%/}; name=$(basename $d); id=${name%-*}
  if ! git -C /repo apply --check /verif/$d/patch.diff 2>/dev/null; then echo "$name: patch does not apply to current /repo"; continue; fi
  git -C /repo apply /verif/$d/patch.diff
  out=$(./check $id 2>&1); rc=$?
  git -C /repo checkout -- .
  nviol=$(echo "$out" | grep -c "^VIOLATION")
  nf=$(echo "$out" | grep -c "no-failing-input-found")
  echo "$name: rc=$rc violations=$nviol no-failing-input=$nf :: $(echo "$out" | tail -1)"
  /venv/bin/python - "$d" "$id" "$rc" "$nviol" "$nf" "$(echo "$out" | tail -1)" <<'PY'
import sys, json
d, pid, rc, nv, nf, last = sys.argv[1:7]
json.dump({'check': './check %s --tier quick' % pid, 'exit_code': int(rc), 'violation_lines': int(nv),
           'of_which_no_failing_input_found': int(nf), 'detected': int(rc) == 1 and int(nv) > 0, 'summary_line': last},
          open(d + '/detection.json', 'w'), indent=1)
PY
done
rm -rf /verif/replays
