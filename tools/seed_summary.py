#!/usr/bin/env python3
"""Write seeded/SUMMARY.md from the detection.json files left by tools/run_seeds.sh."""
import json, glob, os
rows = []
for d in sorted(glob.glob('/verif/seeded/*/')):
    name = os.path.basename(d.rstrip('/'))
    meta = json.load(open(d + 'meta.json')) if os.path.exists(d + 'meta.json') else {}
    det = json.load(open(d + 'detection.json')) if os.path.exists(d + 'detection.json') else None
    patch = open(d + 'patch.diff').read()
    files = sorted(set(l[6:] for l in patch.splitlines() if l.startswith('+++ b/')))
    rows.append((name, files, det))
with open('/verif/seeded/SUMMARY.md', 'w') as f:
    f.write('# Seeded changes and the checks that report them\n\n')
    f.write('Each change breaks the named property while the package imports and the pinned suite still passes '
            '(confirmed in a scratch worktree, see meta.json).  `tools/run_seeds.sh` applied each to /repo, ran the quick check of '
            'the property, and undid it.\n\n')
    f.write('| change | files touched | reported by | how |\n|---|---|---|---|\n')
    for name, files, det in rows:
        if det is None:
            f.write('| %s | %s | (not run) | |\n' % (name, ', '.join(files)))
        else:
            how = 'concrete failing input' if det['violation_lines'] > det['of_which_no_failing_input_found'] else 'tie / theorem breakage (no-failing-input-found)'
            f.write('| %s | %s | %s | %s |\n' % (name, ', '.join(files), ('./check ' + name.split('-')[0]) if det['detected'] else '**MISSED**', how if det['detected'] else det['summary_line']))
print(len(rows), 'rows;', sum(1 for r in rows if r[2] and r[2]['detected']), 'detected')
