#!/bin/bash
# usage: tools/goal.sh <file.v> <line>  — show the proof state after the first <line> lines
f=$1; n=$2
(head -n $n $f; echo; echo "Show.") | timeout 120 coqtop -Q /verif/coq/theories Dendro 2>&1 | tail -n ${3:-40}
