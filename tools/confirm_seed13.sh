#!/bin/bash
# usage: tools/confirm_seed.sh <ID> <k>   — confirm /tmp/mut-out/<ID>/patch<k>.diff + demo<k>.py in a scratch
# worktree of /repo HEAD (applies, suite still passes, demo fails with / passes without), then store it
# under /verif/seeded/<ID>-<k>/ with meta.json.
ID=$1; K=$2
SRC=/tmp/mut13-out/$ID
WT=/var/tmp/verif-seed-$ID-$K
DST=/verif/seeded/$ID-rD$K
rm -rf $WT; git -C /repo worktree add -q --detach $WT HEAD || exit 2
cd $WT
res="ok"
if ! git apply $SRC/patch$K.diff 2>/dev/null; then res="patch-does-not-apply"; fi
if [ "$res" = ok ]; then
  suite=$(/verif/tools/baseline.sh $WT | head -1)
  echo "$suite" | grep -q "baseline_missing=0" || res="suite-fails"
  # demos may assert that astrodendro is imported from the agent's own worktree: point them at this one
  DEMO=$(mktemp /var/tmp/verif-demo-XXXXXX.py); sed "s#/tmp/mut13-$ID#$WT#g" $SRC/demo$K.py > $DEMO
  (cd $SRC && PYTHONPATH=$WT MPLBACKEND=Agg timeout 600 /venv/bin/python $DEMO >/dev/null 2>&1); with=$?
  git checkout -q -- .
  (cd $SRC && PYTHONPATH=$WT MPLBACKEND=Agg timeout 600 /venv/bin/python $DEMO >/dev/null 2>&1); without=$?
  rm -f $DEMO
  [ $with -ne 0 ] || res="demo-passes-with-change"
  [ $without -eq 0 ] || res="demo-fails-without-change"
fi
cd /; git -C /repo worktree remove --force $WT
echo "$ID-$K: $res suite=[$suite] demo_with=$with demo_without=$without"
if [ "$res" = ok ]; then
  mkdir -p $DST; cp $SRC/patch$K.diff $DST/patch.diff; cp $SRC/demo$K.py $DST/demo.py
  /venv/bin/python - "$ID" "$K" "$suite" "$with" "$without" <<'PY'
import sys, json, re, os
ID, K, suite, w, wo = sys.argv[1:6]
notes = open('/tmp/mut13-out/%s/notes.md' % ID).read() if os.path.exists('/tmp/mut13-out/%s/notes.md' % ID) else ''
meta = {'property': ID, 'candidate': int(K),
        'source': 'independent sub-agent given only the property text and a scratch worktree',
        'base_commit': os.popen('git -C /repo rev-parse --short HEAD').read().strip(),
        'confirmed': {'suite_with_change': suite, 'demo_exit_with_change': int(w), 'demo_exit_without_change': int(wo),
                      'how': 'tools/confirm_seed.sh: scratch worktree of /repo HEAD under /var/tmp, git apply, tools/baseline.sh, demo with PYTHONPATH=<worktree>, git checkout, demo again; worktree removed'},
        'needs_to_manifest': '(see notes)', 'agent_notes': notes[:20000]}
json.dump(meta, open('/verif/seeded/%s-rD%s/meta.json' % (ID, K), 'w'), indent=1)
PY
fi
