#!/bin/bash
# usage: tools/try_mutation.sh <patch.diff> <ID> [<ID>...]   — apply to /repo, run quick checks, undo
patch=$1; shift
git -C /repo apply "$patch" || { echo "patch does not apply"; exit 2; }
for id in "$@"; do
  out=$(/verif/check $id 2>&1); rc=$?
  echo "[$id rc=$rc] $(echo "$out" | grep -c VIOLATION) violation line(s); $(echo "$out" | tail -1)"
  echo "$out" | grep VIOLATION | head -2
done
git -C /repo checkout -- .
